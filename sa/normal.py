"""Normal forms used to compare source expressions up to refactoring.

  poly(node, res=None)   integer expression -> canonical polynomial: frozenset of (monomial, coefficient), a monomial being a sorted
                         tuple of atom texts; + - * and constants are distributed, single-definition locals are expanded when a
                         Resolver is given; any other sub-expression is an atom (its own normalised text, sub-terms canonicalised)
  peq(a, b, res=None)    do two expressions have the same polynomial normal form?
  canon(node, res=None)  canonical text of any expression: locals expanded, commutative operators sorted, polynomial parts in
                         normal form
"""
import ast

from .astutil import norm, clone


def _expand(node, res):
    return res.expand_node(node) if res is not None else node


def poly(node, res=None, _depth=0):
    node = _expand(node, res) if _depth == 0 else node
    if isinstance(node, ast.Constant) and isinstance(node.value, int) and not isinstance(node.value, bool):
        return {(): node.value} if node.value else {}
    if isinstance(node, ast.BinOp) and isinstance(node.op, (ast.Add, ast.Sub)):
        a, b = poly(node.left, None, 1), poly(node.right, None, 1)
        out = dict(a)
        s = 1 if isinstance(node.op, ast.Add) else -1
        for m, c in b.items():
            out[m] = out.get(m, 0) + s * c
        return dict((m, c) for m, c in out.items() if c)
    if isinstance(node, ast.UnaryOp) and isinstance(node.op, ast.USub):
        return dict((m, -c) for m, c in poly(node.operand, None, 1).items())
    if isinstance(node, ast.BinOp) and isinstance(node.op, ast.Mult):
        a, b = poly(node.left, None, 1), poly(node.right, None, 1)
        out = {}
        for m1, c1 in a.items():
            for m2, c2 in b.items():
                m = tuple(sorted(m1 + m2))
                out[m] = out.get(m, 0) + c1 * c2
        return dict((m, c) for m, c in out.items() if c)
    if isinstance(node, ast.BinOp) and isinstance(node.op, ast.LShift) and isinstance(node.right, ast.Constant) and isinstance(node.right.value, int):
        return dict((m, c << node.right.value) for m, c in poly(node.left, None, 1).items())
    return {(canon(node),): 1}


def ptext(p):
    items = []
    for m, c in sorted(p.items()):
        items.append("%s%s" % ("" if c == 1 and m else "%d%s" % (c, "*" if m else ""), "*".join(m)))
    return " + ".join(items) if items else "0"


def peq(a, b, res=None):
    return poly(a, res) == poly(b, res)


_COMM = (ast.BitAnd, ast.BitOr, ast.BitXor)


def canon(node, res=None):
    node = _expand(node, res)
    if isinstance(node, ast.BinOp) and isinstance(node.op, (ast.Add, ast.Sub, ast.Mult)) or \
            (isinstance(node, ast.UnaryOp) and isinstance(node.op, ast.USub)) or \
            (isinstance(node, ast.Constant) and isinstance(node.value, int) and not isinstance(node.value, bool)):
        return "P[%s]" % ptext(poly(node, None, 1))
    if isinstance(node, ast.BinOp) and isinstance(node.op, _COMM):
        parts = []

        def flat(n):
            if isinstance(n, ast.BinOp) and type(n.op) is type(node.op):
                flat(n.left)
                flat(n.right)
            else:
                parts.append(canon(n))
        flat(node)
        return "%s(%s)" % (type(node.op).__name__, ", ".join(sorted(parts)))
    if isinstance(node, ast.BinOp):
        return "%s(%s, %s)" % (type(node.op).__name__, canon(node.left), canon(node.right))
    if isinstance(node, ast.Tuple):
        return "(%s)" % ", ".join(canon(e) for e in node.elts)
    if isinstance(node, ast.Subscript):
        if isinstance(node.slice, ast.Slice):
            return "%s[%s:%s]" % (canon(node.value), canon(node.slice.lower) if node.slice.lower is not None else "", canon(node.slice.upper) if node.slice.upper is not None else "")
        return "%s[%s]" % (canon(node.value), canon(node.slice))
    if isinstance(node, ast.Call):
        return "%s(%s)" % (canon(node.func) if not isinstance(node.func, (ast.Name, ast.Attribute)) else norm(node.func),
                           ", ".join([canon(a) for a in node.args] + ["%s=%s" % (k.arg, canon(k.value)) for k in node.keywords]))
    if isinstance(node, ast.Attribute):
        return "%s.%s" % (canon(node.value), node.attr)
    return norm(node)


def state_after(stmts, env=None, methods=None):
    """Sequential symbolic state after straight-line statements: keys are the normalised texts of assigned names AND attributes
    (`self.lines`), values are expressions over the state at entry.  Reads of a key assigned earlier see the new value (so that
    `a.x = f(a.x); b.y = g(a.x)` is followed faithfully).  Compound statements are skipped after forgetting what they may rebind;
    `self.m()` calls of single-return methods given in `methods` are replaced by their returned expression."""
    env = dict(env or {})

    def subst(e):
        class T(ast.NodeTransformer):
            def visit_Name(self, n):
                if isinstance(n.ctx, ast.Load) and n.id in env:
                    return clone(env[n.id])
                return n

            def visit_Attribute(self, n):
                k = norm(n)
                if isinstance(n.ctx, ast.Load) and k in env:
                    return clone(env[k])
                return self.generic_visit(n)

            def visit_Call(self, n):
                n = self.generic_visit(n)
                if methods and isinstance(n.func, ast.Attribute) and isinstance(n.func.value, ast.Name) and n.func.value.id == "self" \
                        and n.func.attr in methods and not n.args and not n.keywords:
                    f = methods[n.func.attr]
                    body = [s for s in f.body if not (isinstance(s, ast.Expr) and isinstance(s.value, ast.Constant))]
                    if len(body) == 1 and isinstance(body[0], ast.Return) and body[0].value is not None and len(f.args.args) == 1:
                        return T().visit(clone(body[0].value))
                return n
        return T().visit(clone(e))
    for st in stmts:
        if isinstance(st, ast.Assign):
            v = subst(st.value)
            for tg in st.targets:
                if isinstance(tg, (ast.Name, ast.Attribute)):
                    env[norm(tg)] = v
                elif isinstance(tg, ast.Tuple) and isinstance(v, ast.Tuple) and len(tg.elts) == len(v.elts):
                    for t, x in zip(tg.elts, v.elts):
                        if isinstance(t, (ast.Name, ast.Attribute)):
                            env[norm(t)] = x
        elif isinstance(st, ast.AugAssign) and isinstance(st.target, (ast.Name, ast.Attribute)):
            k = norm(st.target)
            cur = env.get(k, st.target)
            env[k] = ast.BinOp(left=clone(cur), op=st.op, right=subst(st.value))
        elif isinstance(st, (ast.Expr, ast.Assert, ast.Pass, ast.Continue, ast.Break, ast.Return)):
            continue
        else:
            for n in ast.walk(st):
                if isinstance(n, (ast.Name, ast.Attribute)) and isinstance(n.ctx, (ast.Store, ast.Del)):
                    env.pop(norm(n), None)
    return env
