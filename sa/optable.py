"""OT-0: reference meaning of miasm's IR operators (from doc/expression and expression.py), expressed in a
closed vocabulary of semantic classes, and the tables describing *other* languages' primitives (z3's Python
API, SMT-LIB2 bit-vectors, Python 3 integers, llvmlite's builder). Rules compare what each sibling
implementation is *extracted* to do against OT-0."""

# binary / n-ary operators
OT0 = {
    "+": "ADD", "*": "MUL", "**": "POW", "^": "XOR", "&": "AND", "|": "OR",
    ">>": "LSHR_SAT", "<<": "SHL_SAT", "a>>": "ASHR_SAT", ">>>": "ROTR", "<<<": "ROTL",
    "/": "UDIV", "%": "UREM", "udiv": "UDIV", "umod": "UREM", "sdiv": "SDIV_TRUNC", "smod": "SREM_DIVIDEND",
    "==": "EQ", "<u": "ULT", "<=u": "ULE", "<s": "SLT", "<=s": "SLE",
}
# unary
OT0_UNARY = {"-": "NEG", "parity": "PARITY8_EVEN", "cnttrailzeros": "CTZ_SIZE0", "cntleadzeros": "CLZ_SIZE0"}

# ---- z3 Python API on BitVec values -------------------------------------------------------------
# overloaded Python operators of z3.BitVecRef
Z3_PYOP = {"+": "ADD", "-": "SUB", "*": "MUL", "^": "XOR", "&": "AND", "|": "OR",
           "/": "SDIV_TRUNC", "%": "SREM_DIVISOR",   # z3: / is bvsdiv, % is bvsmod (sign follows divisor)
           ">>": "ASHR", "<<": "SHL", "<": "SLT", "<=": "SLE", ">": "SGT", ">=": "SGE", "==": "EQ"}
Z3_FUNC = {"UDiv": "UDIV", "URem": "UREM", "SRem": "SREM_DIVIDEND", "LShR": "LSHR", "ULT": "ULT", "ULE": "ULE", "UGT": "UGT",
           "UGE": "UGE", "RotateLeft": "ROTL", "RotateRight": "ROTR", "ZeroExt": "ZEXT", "SignExt": "SEXT",
           "Extract": "EXTRACT", "Concat": "CONCAT", "If": "ITE"}

# ---- SMT-LIB 2 bit-vector theory ----------------------------------------------------------------
SMT2 = {"bvadd": "ADD", "bvsub": "SUB", "bvmul": "MUL", "bvxor": "XOR", "bvand": "AND", "bvor": "OR", "bvneg": "NEG", "bvnot": "NOT",
        "bvudiv": "UDIV", "bvurem": "UREM", "bvsdiv": "SDIV_TRUNC", "bvsrem": "SREM_DIVIDEND", "bvsmod": "SREM_DIVISOR",
        "bvshl": "SHL_SAT", "bvlshr": "LSHR_SAT", "bvashr": "ASHR_SAT", "bvult": "ULT", "bvule": "ULE", "bvslt": "SLT", "bvsle": "SLE",
        "bvugt": "UGT", "bvuge": "UGE", "bvsgt": "SGT", "bvsge": "SGE", "=": "EQ",
        "rotate_left": "ROTL", "rotate_right": "ROTR", "zero_extend": "ZEXT", "sign_extend": "SEXT", "extract": "EXTRACT",
        "concat": "CONCAT", "ite": "ITE"}

# ---- Python 3 integers (unbounded, non-negative operands after masking) --------------------------
PY3 = {"+": "ADD", "-": "SUB", "*": "MUL", "^": "XOR", "&": "AND", "|": "OR", "//": "UDIV", "%": "UREM", "/": "TRUE_DIVISION_FLOAT",
       ">>": "LSHR", "<<": "SHL", "**": "POW"}

# ---- llvmlite IRBuilder ---------------------------------------------------------------------------
LLVM = {"add": "ADD", "sub": "SUB", "mul": "MUL", "xor": "XOR", "and_": "AND", "or_": "OR", "udiv": "UDIV", "urem": "UREM",
        "sdiv": "SDIV_TRUNC", "srem": "SREM_DIVIDEND", "shl": "SHL_POISON", "lshr": "LSHR_POISON", "ashr": "ASHR_POISON"}

# classes that agree although spelled differently (a saturating shift is what OT-0 demands; a translation whose
# primitive is the unsaturated machine shift must add the saturation itself)
COMPAT = {
    ("LSHR_SAT", "LSHR_SAT"), ("SHL_SAT", "SHL_SAT"), ("ASHR_SAT", "ASHR_SAT"),
}


def agrees(ref, got):
    return ref == got or (ref, got) in COMPAT
