"""Two dictionaries of one object that must always have the same key set (a value table and its use counter, a forward and a
reverse map ...): every path of every method keeps `keys(self.A) == keys(self.B)`.

Abstract state on a path (relative to the state at method entry, where the two key sets are assumed equal):
    ea / eb   key texts added to A / B since the two were last known equal
    ma / mb   key texts removed from A / B since then
    known_a   key texts known to be in A (a membership test on the path, a successful read `self.A[k]`)
    rel       False when one table was replaced by something unrelated to the other
Statements:  self.A[k] = v (add; nothing when k is known to be in A)      del self.A[k] / self.A.pop(k) (remove)
             self.A = {k: .. for k in self.B} / dict.fromkeys(self.B, ..)  (A becomes a key-copy of B: equal again)
             self.A = <anything else>                                      (unrelated until the other one is key-copied from it)
             self.B[k] += 1 / x = self.B[k]   needs k in B: k was added to B on the path, or k is known in A while B covers A
A path ends in step when rel and ea == eb and ma == mb.  `if` forks; a loop body is run zero times and once (a body that changes
the state differently on each iteration is reported as not understood).  Nothing is executed.
"""
import ast

from .astutil import norm


class NotUnderstood(Exception):
    pass


class _St(object):
    def __init__(self):
        self.ea, self.eb, self.ma, self.mb = set(), set(), set(), set()
        self.known = {"A": set(), "B": set()}
        self.rel = True
        self.fresh = None      # which table was last replaced by an unrelated value

    def copy(self):
        s = _St()
        s.ea, s.eb, s.ma, s.mb = set(self.ea), set(self.eb), set(self.ma), set(self.mb)
        s.known = {"A": set(self.known["A"]), "B": set(self.known["B"])}
        s.rel, s.fresh = self.rel, self.fresh
        return s

    def key(self):
        return (frozenset(self.ea), frozenset(self.eb), frozenset(self.ma), frozenset(self.mb), self.rel, self.fresh,
                frozenset(self.known["A"]), frozenset(self.known["B"]))

    def in_step(self):
        return self.rel and self.ea == self.eb and self.ma == self.mb


def check(methods, A, B, skip=()):
    """methods: {name: FunctionDef}. Returns (issues, stats): issues = [(method, node, text)], stats = paths / stores seen."""
    ta, tb = "self." + A, "self." + B
    issues = []
    stats = {"paths": 0, "stores": 0, "methods": 0}

    def which(e):
        t = norm(e)
        return "A" if t == ta else ("B" if t == tb else None)

    def keycopy_of(v):
        """'A'/'B' when v is a dictionary with exactly the keys of that table"""
        if isinstance(v, ast.DictComp) and len(v.generators) == 1 and not v.generators[0].ifs:
            g = v.generators[0]
            it = g.iter
            if isinstance(it, ast.Call) and isinstance(it.func, ast.Attribute) and it.func.attr in ("keys", "viewkeys") and not it.args:
                it = it.func.value
            if isinstance(it, ast.Call) and isinstance(it.func, ast.Name) and it.func.id in ("list", "sorted", "set", "tuple", "viewkeys", "iterkeys") and len(it.args) == 1:
                it = it.args[0]
            if isinstance(g.target, ast.Name) and norm(v.key) == g.target.id:
                return which(it)
        if isinstance(v, ast.Call) and norm(v.func) == "dict.fromkeys" and v.args:
            return which(v.args[0])
        return None

    def add(st, w, k):
        if k in st.known[w]:
            return
        if w == "A":
            if k in st.ma:
                st.ma.discard(k)
            else:
                st.ea.add(k)
        else:
            if k in st.mb:
                st.mb.discard(k)
            else:
                st.eb.add(k)
        st.known[w].add(k)

    def remove(st, w, k):
        st.known[w].discard(k)
        if w == "A":
            if k in st.ea:
                st.ea.discard(k)
            else:
                st.ma.add(k)
        else:
            if k in st.eb:
                st.eb.discard(k)
            else:
                st.mb.add(k)

    def need(st, w, k, node, mname):
        """a read / update of table w at key k must find the key"""
        if k in st.known[w]:
            return
        o = "B" if w == "A" else "A"
        covers = st.rel and ((st.ea <= st.eb and st.mb <= st.ma) if w == "B" else (st.eb <= st.ea and st.ma <= st.mb))
        if k in st.known[o] and covers:
            st.known[w].add(k)
            return
        if k in st.known[o]:
            issues.append((mname, node, "self.%s[%s] is read or updated on a path where the key is in self.%s but may be missing from self.%s "
                           "(the two tables are out of step there)" % (A if w == "A" else B, k, B if w == "A" else A, A if w == "A" else B)))

    def expr_reads(st, e, node, mname):
        for x in ast.walk(e):
            if isinstance(x, ast.Subscript) and isinstance(x.ctx, ast.Load) and which(x.value):
                w = which(x.value)
                k = norm(x.slice)
                need(st, w, k, node, mname)
                st.known[w].add(k)

    def facts_of(test, truth, st):
        if isinstance(test, ast.UnaryOp) and isinstance(test.op, ast.Not):
            return facts_of(test.operand, not truth, st)
        if isinstance(test, ast.BoolOp):
            if isinstance(test.op, ast.And) and truth or isinstance(test.op, ast.Or) and not truth:
                for v in test.values:
                    facts_of(v, truth, st)
            return
        if isinstance(test, ast.Compare) and len(test.ops) == 1 and isinstance(test.ops[0], (ast.In, ast.NotIn)):
            w = which(test.comparators[0])
            if w and (isinstance(test.ops[0], ast.In) == truth):
                st.known[w].add(norm(test.left))

    def run(stmts, st, mname, ends):
        """returns the list of states falling out of `stmts`; finished paths go to `ends`"""
        cur = [st]
        for s in stmts:
            nxt = []
            for st in cur:
                nxt.extend(step(s, st, mname, ends))
            # merge identical states
            seen = {}
            for x in nxt:
                seen.setdefault(x.key(), x)
            cur = list(seen.values())
            if len(cur) > 256:
                raise NotUnderstood("%s: too many states" % mname)
            if not cur:
                break
        return cur

    def step(s, st, mname, ends):
        if isinstance(s, (ast.Return, ast.Raise)):
            if isinstance(s, ast.Return):
                if s.value is not None:
                    expr_reads(st, s.value, s, mname)
                ends.append((st, s))
            return []
        if isinstance(s, ast.If):
            a, b = st.copy(), st.copy()
            expr_reads(a, s.test, s, mname)
            expr_reads(b, s.test, s, mname)
            facts_of(s.test, True, a)
            facts_of(s.test, False, b)
            return run(s.body, a, mname, ends) + run(s.orelse, b, mname, ends)
        if isinstance(s, (ast.For, ast.While)):
            once = run(s.body, st.copy(), mname, ends)
            out = [st]
            for o in once:
                if (o.ea, o.eb, o.ma, o.mb, o.rel) != (st.ea, st.eb, st.ma, st.mb, st.rel):
                    # the body changes the relation: run it a second time, it must be stable then
                    twice = run(s.body, o.copy(), mname, ends)
                    for t2 in twice:
                        if (t2.ea, t2.eb, t2.ma, t2.mb, t2.rel) != (o.ea, o.eb, o.ma, o.mb, o.rel):
                            raise NotUnderstood("%s: a loop at line %d changes the two tables differently on each iteration" % (mname, s.lineno))
                out.append(o)
            return out + run(s.orelse, st.copy(), mname, ends) if s.orelse else out
        if isinstance(s, ast.Try):
            out = run(s.body, st.copy(), mname, ends)
            for h in s.handlers:
                out += run(h.body, st.copy(), mname, ends)
            res = []
            for o in out:
                res += run(s.finalbody, o, mname, ends) if s.finalbody else [o]
            return res
        if isinstance(s, ast.With):
            return run(s.body, st, mname, ends)
        if isinstance(s, (ast.FunctionDef, ast.ClassDef, ast.Pass, ast.Global, ast.Nonlocal, ast.Import, ast.ImportFrom, ast.Assert)):
            return [st]
        st = st.copy()
        if isinstance(s, ast.Assign):
            expr_reads(st, s.value, s, mname)
            for t in s.targets:
                if isinstance(t, ast.Subscript) and which(t.value):
                    stats["stores"] += 1
                    add(st, which(t.value), norm(t.slice))
                elif which(t):
                    stats["stores"] += 1
                    w = which(t)
                    src = keycopy_of(s.value)
                    o = "B" if w == "A" else "A"
                    if src == o:
                        # w becomes a key-copy of the other table: equal again whatever happened before
                        st.ea, st.eb, st.ma, st.mb = set(), set(), set(), set()
                        st.rel, st.fresh = True, None
                        st.known[w] = set(st.known[o])
                    else:
                        st.rel, st.fresh = False, w
                        st.known[w] = set()
                        st.ea, st.eb, st.ma, st.mb = set(), set(), set(), set()
                elif isinstance(t, (ast.Tuple, ast.List)) and any(which(x) or (isinstance(x, ast.Subscript) and which(x.value)) for x in t.elts):
                    raise NotUnderstood("%s: tuple assignment to the tables at line %d" % (mname, s.lineno))
            return [st]
        if isinstance(s, ast.AugAssign):
            expr_reads(st, s.value, s, mname)
            if isinstance(s.target, ast.Subscript) and which(s.target.value):
                need(st, which(s.target.value), norm(s.target.slice), s, mname)
                st.known[which(s.target.value)].add(norm(s.target.slice))
            elif which(s.target):
                raise NotUnderstood("%s: augmented assignment of a whole table at line %d" % (mname, s.lineno))
            return [st]
        if isinstance(s, ast.Delete):
            for t in s.targets:
                if isinstance(t, ast.Subscript) and which(t.value):
                    stats["stores"] += 1
                    remove(st, which(t.value), norm(t.slice))
            return [st]
        if isinstance(s, ast.Expr):
            v = s.value
            if isinstance(v, ast.Call) and isinstance(v.func, ast.Attribute) and which(v.func.value):
                w = which(v.func.value)
                for a in v.args:
                    expr_reads(st, a, s, mname)
                if v.func.attr in ("pop",) and v.args:
                    stats["stores"] += 1
                    remove(st, w, norm(v.args[0]))
                elif v.func.attr == "setdefault" and v.args:
                    stats["stores"] += 1
                    add(st, w, norm(v.args[0]))
                elif v.func.attr in ("clear", "update", "popitem"):
                    raise NotUnderstood("%s: self.%s.%s() at line %d" % (mname, A if w == "A" else B, v.func.attr, s.lineno))
                return [st]
            expr_reads(st, v, s, mname)
            return [st]
        return [st]

    for mname, fn in sorted(methods.items()):
        if mname in skip:
            continue
        touches = any(which(x) for x in ast.walk(fn))
        if not touches:
            continue
        stats["methods"] += 1
        ends = []
        st0 = _St()
        if mname == "__init__":
            st0.rel = False
        for st in run(fn.body, st0, mname, ends):
            ends.append((st, fn))
        for st, node in ends:
            stats["paths"] += 1
            if not st.in_step():
                if not st.rel:
                    why = "self.%s is replaced without rebuilding the other table from it" % (A if st.fresh == "A" else B)
                else:
                    da = sorted((st.ea - st.eb) | (st.mb - st.ma))
                    db = sorted((st.eb - st.ea) | (st.ma - st.mb))
                    why = "; ".join(x for x in ["key(s) %s end up in self.%s only" % (", ".join(da), A) if da else "",
                                                "key(s) %s end up in self.%s only" % (", ".join(db), B) if db else ""] if x)
                issues.append((mname, node, "a path leaves the two tables with different key sets: " + why))
    # one report per (method, text)
    seen, out = set(), []
    for (mn, node, text) in issues:
        if (mn, text) not in seen:
            seen.add((mn, text))
            out.append((mn, node, text))
    return out, stats
