"""Statement-level control-flow graph for one Python function, with short-circuit
conditions split into separate test nodes, dominators and a small forward data-flow solver.

Node kinds
  entry / exit (normal return or fall-through) / raise (exception leaves the function)
  stmt   simple statement (ast.stmt that is not a compound statement); Return and Raise included
  test   an ast.expr evaluated for truth; out-edges labelled True / False
  for    loop header of an ast.For: out-edges 'iter' (target bound) / 'done'
  with   header of an ast.With (context expressions evaluated, names bound)
  except header of an exception handler (ast.ExceptHandler)
Edges are (dst, label); label None is sequential flow, 'exc' is an exceptional edge into a handler.
"""
import ast


class Node(object):
    __slots__ = ("id", "kind", "ast", "copy_of")

    def __init__(self, nid, kind, node):
        self.id = nid
        self.kind = kind
        self.ast = node
        self.copy_of = None

    def __repr__(self):
        t = ""
        if self.ast is not None:
            try:
                t = ast.unparse(self.ast).split("\n")[0][:60]
            except Exception:
                t = type(self.ast).__name__
        return "<%d %s %s>" % (self.id, self.kind, t)

    @property
    def lineno(self):
        return getattr(self.ast, "lineno", 0)


CATCH_ALL = ("Exception", "BaseException")


class CFG(object):
    def __init__(self, fn):
        self.fn = fn
        self.nodes = []
        self.succ = {}
        self.pred = {}
        self.entry = self._node("entry", None)
        self.exit = self._node("exit", None)
        self.raise_exit = self._node("raise", None)
        self._loops = []
        self._tries = []
        body = fn.body if isinstance(fn, (ast.FunctionDef, ast.AsyncFunctionDef, ast.Module)) else fn
        fr = self._stmts(body, [(self.entry.id, None)])
        self._connect(fr, self.exit.id)
        self._dom = None

    # ---- construction -------------------------------------------------------------------
    def _node(self, kind, node):
        n = Node(len(self.nodes), kind, node)
        self.nodes.append(n)
        self.succ[n.id] = []
        self.pred[n.id] = []
        return n

    def _edge(self, a, b, label):
        if (b, label) not in self.succ[a]:
            self.succ[a].append((b, label))
            self.pred[b].append((a, label))

    def _connect(self, frontier, dst):
        for (src, label) in frontier:
            self._edge(src, dst, label)

    def _new(self, kind, node, frontier):
        n = self._node(kind, node)
        self._connect(frontier, n.id)
        # exceptional edges into the handlers of the innermost try whose body we are in
        for ctx in reversed(self._tries):
            if ctx["phase"] == "body" and ctx["heads"]:
                for h in ctx["heads"]:
                    for (src, _l) in frontier:
                        self._edge(src, h, "exc")
                    self._edge(n.id, h, "exc")
                break
            if ctx["phase"] == "body":
                continue
            break
        return n

    def _stmts(self, body, frontier):
        for st in body:
            frontier = self._stmt(st, frontier)
        return frontier

    def _cond(self, e, frontier):
        if isinstance(e, ast.BoolOp):
            if isinstance(e.op, ast.And):
                t = frontier
                falses = []
                for v in e.values:
                    t, f = self._cond(v, t)
                    falses.extend(f)
                return t, falses
            f = frontier
            trues = []
            for v in e.values:
                t, f = self._cond(v, f)
                trues.extend(t)
            return trues, f
        if isinstance(e, ast.UnaryOp) and isinstance(e.op, ast.Not):
            t, f = self._cond(e.operand, frontier)
            return f, t
        n = self._new("test", e, frontier)
        if isinstance(e, ast.Constant):
            if e.value:
                return [(n.id, True)], []
            return [], [(n.id, False)]
        return [(n.id, True)], [(n.id, False)]

    def _run_finallies(self, frontier, upto):
        """Emit copies of the finally bodies of try contexts deeper than index `upto`."""
        idx = len(self._tries) - 1
        while idx >= upto and frontier:
            ctx = self._tries[idx]
            if ctx["final"] and ctx["phase"] != "final":
                saved = self._tries
                self._tries = saved[:idx]
                frontier = self._stmts(ctx["final"], frontier)
                self._tries = saved
            idx -= 1
        return frontier

    def _raise(self, frontier):
        """Route an explicit raise: to enclosing handlers (if any), else out of the function."""
        idx = len(self._tries) - 1
        fr = frontier
        while idx >= 0:
            ctx = self._tries[idx]
            if ctx["phase"] == "body" and ctx["heads"]:
                for h in ctx["heads"]:
                    for (src, _l) in fr:
                        self._edge(src, h, "exc")
                if ctx["catch_all"]:
                    return
            if ctx["final"] and ctx["phase"] != "final":
                saved = self._tries
                self._tries = saved[:idx]
                fr = self._stmts(ctx["final"], fr)
                self._tries = saved
            idx -= 1
        self._connect(fr, self.raise_exit.id)

    def _stmt(self, st, frontier):
        if not frontier:
            # unreachable code: still build it (detached) so that every statement has a node
            pass
        if isinstance(st, ast.If):
            t, f = self._cond(st.test, frontier)
            out = self._stmts(st.body, t)
            out = out + self._stmts(st.orelse, f)
            return out
        if isinstance(st, ast.While):
            head_marker = self._new("stmt", ast.Pass(), frontier)  # loop join point
            head_marker.kind = "loop"
            head_marker.ast = st
            t, f = self._cond(st.test, [(head_marker.id, None)])
            ctx = {"breaks": [], "head": head_marker.id, "tries": len(self._tries)}
            self._loops.append(ctx)
            out = self._stmts(st.body, t)
            self._loops.pop()
            self._connect(out, head_marker.id)
            f = self._stmts(st.orelse, f)
            return f + ctx["breaks"]
        if isinstance(st, (ast.For, ast.AsyncFor)):
            head = self._new("for", st, frontier)
            ctx = {"breaks": [], "head": head.id, "tries": len(self._tries)}
            self._loops.append(ctx)
            out = self._stmts(st.body, [(head.id, "iter")])
            self._loops.pop()
            self._connect(out, head.id)
            f = self._stmts(st.orelse, [(head.id, "done")])
            return f + ctx["breaks"]
        if isinstance(st, (ast.With, ast.AsyncWith)):
            head = self._new("with", st, frontier)
            return self._stmts(st.body, [(head.id, None)])
        if isinstance(st, ast.Try) or type(st).__name__ == "TryStar":
            catch_all = False
            for h in st.handlers:
                if h.type is None:
                    catch_all = True
                else:
                    names = [h.type] if not isinstance(h.type, ast.Tuple) else h.type.elts
                    for nm in names:
                        if isinstance(nm, ast.Name) and nm.id in CATCH_ALL:
                            catch_all = True
            heads = [self._node("except", h) for h in st.handlers]
            ctx = {"phase": "body", "heads": [h.id for h in heads], "final": st.finalbody,
                   "catch_all": catch_all}
            self._tries.append(ctx)
            out = self._stmts(st.body, frontier)
            ctx["phase"] = "else"
            out = self._stmts(st.orelse, out)
            ctx["phase"] = "handler"
            for h, hn in zip(st.handlers, heads):
                out = out + self._stmts(h.body, [(hn.id, None)])
            ctx["phase"] = "final"
            out = self._stmts(st.finalbody, out)
            self._tries.pop()
            return out
        if isinstance(st, ast.Return):
            n = self._new("stmt", st, frontier)
            fr = self._run_finallies([(n.id, None)], 0)
            self._connect(fr, self.exit.id)
            return []
        if isinstance(st, ast.Raise):
            n = self._new("stmt", st, frontier)
            self._raise([(n.id, None)])
            return []
        if isinstance(st, ast.Break):
            n = self._new("stmt", st, frontier)
            if self._loops:
                ctx = self._loops[-1]
                fr = self._run_finallies([(n.id, None)], ctx["tries"])
                ctx["breaks"].extend(fr)
            return []
        if isinstance(st, ast.Continue):
            n = self._new("stmt", st, frontier)
            if self._loops:
                ctx = self._loops[-1]
                fr = self._run_finallies([(n.id, None)], ctx["tries"])
                self._connect(fr, ctx["head"])
            return []
        n = self._new("stmt", st, frontier)
        return [(n.id, None)]

    # ---- queries ------------------------------------------------------------------------
    def reachable(self):
        seen = set([self.entry.id])
        stack = [self.entry.id]
        while stack:
            a = stack.pop()
            for (b, _l) in self.succ[a]:
                if b not in seen:
                    seen.add(b)
                    stack.append(b)
        return seen

    def dominators(self):
        """id -> set of ids dominating it (reachable nodes only)."""
        if self._dom is not None:
            return self._dom
        reach = self.reachable()
        order = self._rpo()
        full = set(reach)
        dom = dict((n, set(full)) for n in reach)
        dom[self.entry.id] = set([self.entry.id])
        changed = True
        while changed:
            changed = False
            for n in order:
                if n == self.entry.id:
                    continue
                ps = [p for (p, _l) in self.pred[n] if p in reach]
                new = None
                for p in ps:
                    new = set(dom[p]) if new is None else (new & dom[p])
                new = (new or set()) | set([n])
                if new != dom[n]:
                    dom[n] = new
                    changed = True
        self._dom = dom
        return dom

    def _rpo(self):
        seen = set()
        out = []

        def dfs(a):
            stack = [(a, iter(self.succ[a]))]
            seen.add(a)
            while stack:
                node, it = stack[-1]
                adv = False
                for (b, _l) in it:
                    if b not in seen:
                        seen.add(b)
                        stack.append((b, iter(self.succ[b])))
                        adv = True
                        break
                if not adv:
                    out.append(node)
                    stack.pop()
        dfs(self.entry.id)
        out.reverse()
        return out

    def nodes_of(self, astnode):
        """CFG nodes whose ast is `astnode` (copies of finally bodies give several)."""
        return [n for n in self.nodes if n.ast is astnode]

    def node_containing(self, inner):
        """CFG nodes whose ast contains the ast node `inner` (by identity)."""
        out = []
        for n in self.nodes:
            if n.ast is None:
                continue
            root = n.ast
            if n.kind == "for":
                roots = [root.iter, root.target]
            elif n.kind == "with":
                roots = [i for i in root.items]
            elif n.kind == "except":
                roots = [root.type] if root.type is not None else []
            elif n.kind == "loop":
                roots = []
            else:
                roots = [root]
            for r in roots:
                for x in ast.walk(r):
                    if x is inner:
                        out.append(n)
                        break
        return out

    def forward(self, init, flow, join, edge=None, max_iter=20000):
        """Forward data-flow. `flow(node, state) -> state`, `edge(node, label, state) -> state or
        None (edge infeasible)`, `join(a, b) -> state`. Returns (IN, OUT) dicts by node id;
        unreached nodes are absent."""
        IN = {self.entry.id: init}
        OUT = {}
        order = self._rpo()
        pos = dict((n, i) for i, n in enumerate(order))
        work = set([self.entry.id])
        it = 0
        while work:
            it += 1
            if it > max_iter:
                raise RuntimeError("data-flow did not converge")
            n = min(work, key=lambda x: pos.get(x, 1 << 30))
            work.discard(n)
            st = IN[n]
            out = flow(self.nodes[n], st)
            OUT[n] = out
            for (b, label) in self.succ[n]:
                s2 = out if edge is None else edge(self.nodes[n], label, out)
                if s2 is None:
                    continue
                if b in IN:
                    j = join(IN[b], s2)
                    if j != IN[b]:
                        IN[b] = j
                        work.add(b)
                else:
                    IN[b] = s2
                    work.add(b)
        return IN, OUT

    # must-pass-through: does every path entry -> target pass a node satisfying pred?
    def must_pass(self, pred, targets=None, from_node=None):
        """For each target node id (default: normal exit), True iff every path from entry (or from
        `from_node`, exclusive) to it contains a node n with pred(n)."""
        start = self.entry.id if from_node is None else from_node
        # compute nodes reachable from start without crossing a pred-node
        seen = set()
        stack = [start]
        first = True
        while stack:
            a = stack.pop()
            if a in seen:
                continue
            if not (first and from_node is not None):
                if pred(self.nodes[a]):
                    first = False
                    continue
            first = False
            seen.add(a)
            for (b, _l) in self.succ[a]:
                stack.append(b)
        if targets is None:
            targets = [self.exit.id]
        return dict((t, t not in seen) for t in targets)

    def path_avoiding(self, pred, target, from_node=None):
        """A witness path (list of nodes) from entry/from_node to target avoiding pred nodes."""
        start = self.entry.id if from_node is None else from_node
        prev = {start: None}
        queue = [start]
        while queue:
            a = queue.pop(0)
            if a == target:
                path = []
                while a is not None:
                    path.append(self.nodes[a])
                    a = prev[a]
                return list(reversed(path))
            for (b, _l) in self.succ[a]:
                if b in prev:
                    continue
                if b != target and pred(self.nodes[b]):
                    continue
                prev[b] = a
                queue.append(b)
        return None

    def can_reach(self, a, b, avoid=None):
        """Is there a non-empty path a ->+ b (not crossing `avoid` nodes)?"""
        seen = set()
        stack = [x for (x, _l) in self.succ[a]]
        while stack:
            n = stack.pop()
            if n in seen:
                continue
            seen.add(n)
            if n == b:
                return True
            if avoid is not None and avoid(self.nodes[n]):
                continue
            stack.extend(x for (x, _l) in self.succ[n])
        return False


def node_exprs(node):
    """The ast sub-trees that are *evaluated at* a CFG node (no nested statements)."""
    a = node.ast
    if a is None:
        return []
    if node.kind == "for":
        return [a.iter, a.target]
    if node.kind == "with":
        out = []
        for i in a.items:
            out.append(i.context_expr)
            if i.optional_vars is not None:
                out.append(i.optional_vars)
        return out
    if node.kind == "except":
        return [a.type] if a.type is not None else []
    if node.kind == "loop":
        return []
    if isinstance(a, (ast.FunctionDef, ast.AsyncFunctionDef, ast.ClassDef)):
        return []
    return [a]


def node_calls(node):
    """ast.Call nodes evaluated at a CFG node (nested defs excluded, lambdas included)."""
    from .astutil import walk_local
    out = []
    for e in node_exprs(node):
        for x in walk_local(e):
            if isinstance(x, ast.Call):
                out.append(x)
    return out
