"""Obligation bookkeeping, known-findings matching, evidence and replay files, exit codes."""
import json
import os
import re
import time

from .repo import VERIF, AnalysisError


def _slug(s):
    return re.sub(r"[^A-Za-z0-9_.-]+", "_", s)[:120]


class Checker(object):
    """One run of the rules of one property."""

    def __init__(self, pid, repo, tier="quick"):
        self.pid = pid
        self.repo = repo
        self.tier = tier
        self.t0 = time.time()
        self.obligations = []      # dict(rule, construct, ok, where, detail)
        self.rules = {}            # rule id -> description
        self.floors = {}           # rule id -> minimum instance count
        self.notes = []
        self.undetermined = []
        self.controls = []         # positive controls (thorough tier)

    # -- rule declaration -------------------------------------------------------------------
    def rule(self, rid, text, floor=1):
        self.rules[rid] = text
        self.floors[rid] = floor

    def ob(self, rid, construct, ok, where="", detail=""):
        """Record one obligation: rule `rid` instantiated at `construct` (a stable key made of
        module, qualified function and normalised construct text - never a line number)."""
        if rid not in self.rules:
            raise AnalysisError("internal: undeclared rule %s" % rid)
        self.obligations.append({"rule": rid, "construct": construct, "ok": bool(ok),
                                 "where": where, "detail": detail})
        return bool(ok)

    def need(self, cond, msg):
        """An anchor the rule is instantiated from must resolve, else the analysis is broken."""
        if not cond:
            raise AnalysisError(msg)

    def note(self, msg):
        self.notes.append(msg)

    def undet(self, rid, construct, why):
        self.undetermined.append({"rule": rid, "construct": construct, "why": why})

    # -- finishing --------------------------------------------------------------------------
    def _known(self):
        p = os.path.join(VERIF, "known_findings.json")
        if not os.path.exists(p):
            return []
        with open(p) as f:
            data = json.load(f)
        return [e for e in data.get("findings", []) if e.get("property") == self.pid]

    def finish(self, level_text, assumptions):
        counts = {}
        for o in self.obligations:
            counts[o["rule"]] = counts.get(o["rule"], 0) + 1
        known = self._known()
        open_keys = set((e["rule"], e["construct"]) for e in known if e.get("status", "open") == "open")
        for rid, floor in self.floors.items():
            if counts.get(rid, 0) < floor:
                # a rule that already found an unlisted violation has not passed vacuously: report the violation; the instance
                # floor only guards against silent, empty passes
                if any((not o["ok"]) and o["rule"] == rid and (o["rule"], o["construct"]) not in open_keys for o in self.obligations):
                    self.notes.append("rule %s matched %d instance(s) (< %d) after reporting a violation" % (rid, counts.get(rid, 0), floor))
                    continue
                raise AnalysisError("rule %s matched %d instance(s), fewer than the %d confirmed by "
                                    "hand on the pinned tree (anchor moved or extractor blind)"
                                    % (rid, counts.get(rid, 0), floor))
        open_known = dict(((e["rule"], e["construct"]), e) for e in known
                          if e.get("status", "open") == "open")
        viol = []
        seen_keys = set()
        known_hit = []
        for o in self.obligations:
            if o["ok"]:
                continue
            key = (o["rule"], o["construct"])
            if key in seen_keys:
                continue
            seen_keys.add(key)
            if key in open_known:
                known_hit.append((o, open_known[key]))
            else:
                viol.append(o)
        stale = [e for k, e in open_known.items() if k not in seen_keys]

        outbase = os.environ.get("VERIF_OUT", VERIF)
        rdir = os.path.join(outbase, "replay")
        os.makedirs(rdir, exist_ok=True)
        lines = []
        for o, e in known_hit:
            lines.append("KNOWN-FINDING: property=%s rule=%s construct=%s :: %s"
                         % (self.pid, o["rule"], o["construct"], e.get("what_fails", o["detail"])))
        for o in viol:
            import hashlib
            digest = hashlib.sha1(o["construct"].encode("utf-8", "replace")).hexdigest()[:8]
            rp = os.path.join(rdir, "%s_%s_%s_%s.json" % (self.pid, o["rule"], _slug(o["construct"])[:60], digest))
            with open(rp, "w") as f:
                json.dump({"property": self.pid, "rule": o["rule"], "rule_text": self.rules[o["rule"]],
                           "construct": o["construct"], "where": o["where"], "detail": o["detail"],
                           "recheck": "./check %s --tier %s" % (self.pid, self.tier)}, f, indent=1)
            lines.append("VIOLATION property=%s replay=%s" % (self.pid, rp))
            lines.append("  rule %s: %s" % (o["rule"], self.rules[o["rule"]]))
            lines.append("  at %s  construct %s" % (o["where"], o["construct"]))
            lines.append("  %s" % o["detail"])

        n_ob = len(self.obligations)
        n_ok = sum(1 for o in self.obligations if o["ok"])
        distinct = len(set((o["rule"], o["construct"]) for o in self.obligations))
        samples = []
        per_rule_seen = {}
        for o in self.obligations:
            if per_rule_seen.get(o["rule"], 0) < 2:
                per_rule_seen[o["rule"]] = per_rule_seen.get(o["rule"], 0) + 1
                samples.append({"rule": o["rule"], "construct": o["construct"], "where": o["where"],
                                "ok": o["ok"]})
        ev = {
            "property_id": self.pid,
            "tier": self.tier,
            "seed": int(os.environ.get("VERIF_SEED", "0") or 0),
            "level": "other",
            "coverage": {
                "explanation": level_text,
                "obligations": n_ob,
                "discharged": n_ok,
                "evaluations": n_ob,
                "distinct_nontrivial": distinct,
                "rule": "one obligation = one rule instantiated at one construct of /repo's current "
                        "source (re-derived on this run); distinct = distinct (rule, construct) keys",
                "samples": samples[:40],
                "rules": dict((rid, {"text": t, "instances": counts.get(rid, 0),
                                     "floor": self.floors[rid]}) for rid, t in self.rules.items()),
                "known_findings_rederived": [o["construct"] for o, _e in known_hit],
                "undetermined": self.undetermined[:50],
                "files_analysed": self.repo.consulted,
                "notes": self.notes[:50],
                "positive_controls": self.controls,
                "exhaustive": False,
            },
            "assumptions": assumptions,
            "wall_s": round(time.time() - self.t0, 3),
            "violations": len(viol),
        }
        edir = os.path.join(outbase, "evidence")
        os.makedirs(edir, exist_ok=True)
        with open(os.path.join(edir, "%s.json" % self.pid), "w") as f:
            json.dump(ev, f, indent=1, sort_keys=True)

        for l in lines:
            print(l)
        print("%s: %d obligations over %d rules, %d discharged, %d known finding(s), %d violation(s), %.2fs"
              % (self.pid, n_ob, len(self.rules), n_ok, len(known_hit), len(viol), time.time() - self.t0))
        for e in stale:
            # not an alarm: the listed defect is no longer derivable (repaired, or the construct moved)
            print("NOTE property=%s listed known finding not re-derived on this tree: rule=%s construct=%s"
                  % (self.pid, e["rule"], e["construct"]))
        return 1 if viol else 0
