"""Node-kind must-analysis for the simplification passes (placeholder until the flow analysis is armed)."""


def check_function(repo, mod, fn, kcls):
    return []
