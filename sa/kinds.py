"""Node-kind must-analysis for the simplification passes (C01-R2).

For every read of a class-specific attribute of an expression (P.op, P.args, P.arg, P.start, P.stop, P.cond,
P.src1, P.src2, P.ptr, int(P), P.args[k], `a, b = P.args`) the analysis decides whether the Expr class of P
(and, for indexing, the arity of P) is established on every path to the read.

Abstract state (a frozenset of facts, joined by "what holds on both sides"):
  ('A', name, path)          local `name` aliases the access path `path`
  ('K', path, classes)       the node at `path` is an instance of one of `classes`
  ('O', path, ops)           its operator is one of `ops` ('pfx*' entries denote prefixes)
  ('L', path, lo, hi)        len(path.args) is within [lo, hi] (hi None = unbounded)
  ('E', path, classes)       every element of the sequence at `path` is an instance of one of `classes`
Access paths are rooted at a parameter or local: expr, expr.args[0], expr.cond.args[1], arg, args[-1] ...
"""
import ast

from .astutil import norm, dotted, callee_attr, str_elts
from .cfg import CFG
from .exprmodel import KINDS, IS_PRED

ALL = frozenset(KINDS)
STRUCT = set(["args", "cond", "src1", "src2", "arg", "ptr", "src", "dst"])
NEED = {"op": frozenset(["ExprOp"]), "args": frozenset(["ExprOp", "ExprCompose"]), "arg": frozenset(["ExprSlice", "ExprInt", "ExprMem"]),
        "start": frozenset(["ExprSlice"]), "stop": frozenset(["ExprSlice"]), "cond": frozenset(["ExprCond"]), "src1": frozenset(["ExprCond"]),
        "src2": frozenset(["ExprCond"]), "ptr": frozenset(["ExprMem"]), "src": frozenset(["ExprAssign"]), "dst": frozenset(["ExprAssign"]),
        "name": frozenset(["ExprId"]), "loc_key": frozenset(["ExprLoc"]), "is_commutative": frozenset(["ExprOp"]), "is_associative": frozenset(["ExprOp"])}
CTOR = dict((k, frozenset([k])) for k in KINDS)
# methods of Expr returning a given class whatever the receiver
RET_KIND = {"msb": frozenset(["ExprSlice"]), "zeroExtend": None, "signExtend": None, "copy": None}
BINARY_OPS = set(["<<", ">>", "a>>", "<<<", ">>>", "udiv", "umod", "sdiv", "smod", "==", "<u", "<s", "<=u", "<=s", "/", "%", "**", "segm",
                  "bcdadd", "bcdadd_cf"])
UNARY_OPS = set(["parity", "cnttrailzeros", "cntleadzeros", "pfx:zeroExt", "pfx:signExt", "pfx:zeroExt_", "pfx:signExt_"])
NARY_OPS = set(["+", "*", "^", "&", "|"])


class St(object):
    """Immutable abstract state."""
    __slots__ = ("alias", "kind", "ops", "lens", "elem", "_h")

    def __init__(self, alias=None, kind=None, ops=None, lens=None, elem=None):
        self.alias = alias or {}
        self.kind = kind or {}
        self.ops = ops or {}
        self.lens = lens or {}
        self.elem = elem or {}
        self._h = None

    def copy(self):
        return St(dict(self.alias), dict(self.kind), dict(self.ops), dict(self.lens), dict(self.elem))

    def key(self):
        if self._h is None:
            self._h = (tuple(sorted(self.alias.items())), tuple(sorted((k, tuple(sorted(v))) for k, v in self.kind.items())),
                       tuple(sorted((k, tuple(sorted(v))) for k, v in self.ops.items())), tuple(sorted(self.lens.items(), key=lambda x: x[0])),
                       tuple(sorted((k, tuple(sorted(v))) for k, v in self.elem.items())))
        return self._h

    def __eq__(self, o):
        return isinstance(o, St) and self.key() == o.key()

    def __ne__(self, o):
        return not self.__eq__(o)

    def __hash__(self):
        return hash(self.key())


def join(a, b):
    if a is None:
        return b
    if b is None:
        return a
    out = St()
    out.alias = dict((k, v) for k, v in a.alias.items() if b.alias.get(k) == v)
    for k, v in a.kind.items():
        if k in b.kind:
            out.kind[k] = v | b.kind[k]
    for k, v in a.ops.items():
        if k in b.ops:
            out.ops[k] = v | b.ops[k]
    for k, (lo, hi) in a.lens.items():
        if k in b.lens:
            lo2, hi2 = b.lens[k]
            out.lens[k] = (min(lo, lo2), None if (hi is None or hi2 is None) else max(hi, hi2))
    for k, v in a.elem.items():
        if k in b.elem:
            out.elem[k] = v | b.elem[k]
    return out


class Analysis(object):
    def __init__(self, repo, mod, fn, kcls, helpers=None):
        self.repo = repo
        self.mod = mod
        self.fn = fn
        self.kcls = kcls
        self.params = [a.arg for a in fn.args.args]
        self.simp = self.params[0] if self.params else None
        self.exprp = self.params[1] if len(self.params) > 1 else None
        self.locals = set(self.params)
        for n in ast.walk(fn):
            if isinstance(n, ast.Name) and isinstance(n.ctx, ast.Store):
                self.locals.add(n.id)
        # locals that only ever hold plain Python values (flow-insensitive fix point)
        defs = {}
        for n in ast.walk(fn):
            if isinstance(n, ast.Assign):
                for t in n.targets:
                    if isinstance(t, ast.Name):
                        defs.setdefault(t.id, []).append(n.value)
                    elif isinstance(t, (ast.Tuple, ast.List)) and isinstance(n.value, (ast.Tuple, ast.List)) and len(t.elts) == len(n.value.elts) \
                            and all(isinstance(x, ast.Name) for x in t.elts):
                        # parallel assignment: element-wise
                        for x, v in zip(t.elts, n.value.elts):
                            defs.setdefault(x.id, []).append(v)
                    else:
                        for x in ast.walk(t):
                            if isinstance(x, ast.Name) and isinstance(x.ctx, ast.Store):
                                defs.setdefault(x.id, []).append(None)
            elif isinstance(n, (ast.For, ast.comprehension)):
                for x in ast.walk(n.target):
                    if isinstance(x, ast.Name):
                        defs.setdefault(x.id, []).append(None)
            elif isinstance(n, ast.AugAssign) and isinstance(n.target, ast.Name):
                defs.setdefault(n.target.id, []).append(n.value)
        self.py_locals = set()
        changed = True
        while changed:
            changed = False
            for name, vs in defs.items():
                if name in self.py_locals or name in self.params:
                    continue
                tmp = St()
                for q in self.py_locals:
                    tmp.kind[q] = frozenset(["py"])
                if all(v is not None and self.is_py(v, tmp) for v in vs):
                    self.py_locals.add(name)
                    changed = True
        self.out = []          # (key, ok, where, detail)
        self.seen = set()
        self.consts = helpers or {}

    # ---------------------------------------------------------------- paths
    def seq_path(self, e, st):
        """Path of the sequence iterated by `e` (copies, slices, reversed()... keep the element facts)."""
        while True:
            if isinstance(e, ast.Call) and callee_attr(e) in ("list", "reversed", "sorted", "tuple", "set", "frozenset") and e.args:
                e = e.args[0]
            elif isinstance(e, ast.Subscript) and isinstance(e.slice, ast.Slice):
                e = e.value
            else:
                break
        return self.path(e, st)

    def path(self, e, st):
        if isinstance(e, ast.Name):
            if e.id in st.alias:
                return st.alias[e.id]
            if e.id in self.locals and e.id != self.simp:
                return e.id
            return None
        if isinstance(e, ast.Attribute) and e.attr == "op":
            p = self.path(e.value, st)
            return None if p is None else p + ".op"
        if isinstance(e, ast.Attribute) and e.attr in STRUCT:
            p = self.path(e.value, st)
            return None if p is None else p + "." + e.attr
        if isinstance(e, ast.Subscript) and not isinstance(e.slice, ast.Slice):
            p = self.path(e.value, st)
            if p is None:
                return None
            idx = e.slice
            if isinstance(idx, ast.Constant) and isinstance(idx.value, int):
                return "%s[%d]" % (p, idx.value)
            if isinstance(idx, ast.UnaryOp) and isinstance(idx.op, ast.USub) and isinstance(idx.operand, ast.Constant):
                return "%s[-%d]" % (p, idx.operand.value)
            return "%s[%s]" % (p, norm(idx))
        return None

    def is_py(self, v, st):
        """Is `v` a plain Python value (number / string / bool), not an expression node?"""
        PY = frozenset(["py"])
        if isinstance(v, ast.Constant):
            return True
        if isinstance(v, ast.Name):
            p = self.path(v, st)
            return p is not None and st.kind.get(p) == PY
        if isinstance(v, ast.Attribute) and v.attr in ("size", "op"):
            return True
        if isinstance(v, ast.Call):
            ca = callee_attr(v)
            if (isinstance(v.func, ast.Name) and ca in ("int", "len", "pow", "abs", "min", "max", "parity", "bool", "str")) or \
                    (isinstance(v.func, ast.Subscript) and dotted(v.func.value) in ("mod_size2uint", "mod_size2int")):
                return True
            return False
        if isinstance(v, ast.BinOp):
            return self.is_py(v.left, st) and self.is_py(v.right, st)
        if isinstance(v, ast.UnaryOp):
            return self.is_py(v.operand, st)
        if isinstance(v, ast.Compare):
            return True
        if isinstance(v, ast.IfExp):
            return self.is_py(v.body, st) and self.is_py(v.orelse, st)
        return False

    # ---------------------------------------------------------------- kills
    def kill_root(self, st, root):
        """Forget everything about paths rooted at local `root` (it is being rebound / mutated)."""
        def rooted(p):
            return p == root or p.startswith(root + ".") or p.startswith(root + "[")
        # a local that aliases a path into the dying root keeps what is known about it, under its own name
        for n, p in list(st.alias.items()):
            if n != root and rooted(p) and not n.startswith("__"):
                for d in (st.kind, st.ops, st.lens, st.elem):
                    for q in [q for q in d if q == p or q.startswith(p + ".") or q.startswith(p + "[")]:
                        d[n + q[len(p):]] = d[q]
        st.alias = dict((k, v) for k, v in st.alias.items() if k != root and not rooted(v))
        for d in (st.kind, st.ops, st.lens, st.elem):
            for k in [k for k in d if rooted(k)]:
                del d[k]

    # ---------------------------------------------------------------- refinement by a test
    def refine(self, st, test, pol):
        """State after `test` evaluated with truth value `pol` (None if that outcome is impossible to describe -> st)."""
        if isinstance(test, ast.BoolOp):
            conj = isinstance(test.op, ast.And)
            if conj == pol:
                s = st
                for v in test.values:
                    s = self.refine(s, v, pol)
                return s
            # the other outcome: some operand has the other value, the previous ones the first
            res = None
            s = st
            for v in test.values:
                res = join(res, self.refine(s, v, pol))
                s = self.refine(s, v, not pol)
            return res if res is not None else st
        if isinstance(test, ast.UnaryOp) and isinstance(test.op, ast.Not):
            return self.refine(st, test.operand, not pol)
        s = st.copy()
        if isinstance(test, ast.Call):
            f = test.func
            # P.is_X(...)
            if isinstance(f, ast.Attribute) and f.attr in IS_PRED:
                p = self.path(f.value, st)
                if p is not None:
                    k = IS_PRED[f.attr]
                    if pol:
                        s.kind[p] = frozenset([k])
                        if k == "ExprOp" and test.args and isinstance(test.args[0], ast.Constant):
                            s.ops[p] = frozenset([test.args[0].value])
                        elif k == "ExprOp" and test.args and isinstance(test.args[0], ast.Name) and test.args[0].id in self.consts:
                            s.ops[p] = frozenset([self.consts[test.args[0].id]])
                        elif k == "ExprOp" and test.args:
                            ap = self.path(test.args[0], st)
                            if ap is not None and ap.endswith(".op") and ap[:-3] in st.ops:
                                s.ops[p] = st.ops[ap[:-3]]
                            elif ap is not None and ap in st.ops:
                                s.ops[p] = st.ops[ap]
                    elif not test.args:
                        if p in s.kind:
                            s.kind[p] = s.kind[p] - frozenset([k])
                return s
            if isinstance(f, ast.Name) and f.id == "isinstance" and len(test.args) == 2:
                p = self.path(test.args[0], st)
                cl = test.args[1].elts if isinstance(test.args[1], ast.Tuple) else [test.args[1]]
                names = frozenset((c.attr if isinstance(c, ast.Attribute) else getattr(c, "id", "?")) for c in cl)
                if p is not None and names <= ALL:
                    if pol:
                        s.kind[p] = names
                    elif p in s.kind:
                        s.kind[p] = s.kind[p] - names
                return s
            # P.op.startswith("pfx")
            if isinstance(f, ast.Attribute) and f.attr == "startswith" and isinstance(f.value, ast.Attribute) and f.value.attr == "op" and test.args \
                    and isinstance(test.args[0], ast.Constant):
                p = self.path(f.value.value, st)
                if p is not None and pol:
                    s.ops[p] = frozenset(["pfx:" + test.args[0].value])
                return s
            # all(<cond> for x in L)
            if isinstance(f, ast.Name) and f.id == "all" and test.args and isinstance(test.args[0], (ast.GeneratorExp, ast.ListComp)) and pol:
                g = test.args[0]
                if len(g.generators) == 1 and isinstance(g.generators[0].target, ast.Name) and not g.generators[0].ifs:
                    lp = self.path(g.generators[0].iter, st)
                    x = g.generators[0].target.id
                    if lp is not None:
                        tmp = St()
                        tmp.alias[x] = "__elt__"
                        r = self.refine(tmp, g.elt, True)
                        if "__elt__" in r.kind:
                            s.elem[lp] = r.kind["__elt__"]
                return s
            # helper: test_cc_eq_args(P, "OP0", "OP1", ...)
            if isinstance(f, ast.Name) and f.id == "test_cc_eq_args" and test.args and pol:
                p = self.path(test.args[0], st)
                sons = test.args[1:]
                if p is not None and all(isinstance(x, ast.Constant) for x in sons):
                    s.kind[p] = frozenset(["ExprOp"])
                    s.lens[p] = (len(sons), len(sons))
                    for i, x in enumerate(sons):
                        s.kind["%s.args[%d]" % (p, i)] = frozenset(["ExprOp"])
                        s.ops["%s.args[%d]" % (p, i)] = frozenset([x.value])
                return s
            return s
        if isinstance(test, ast.Compare) and len(test.ops) == 1:
            l, op, r = test.left, test.ops[0], test.comparators[0]
            # P.op == "x" / != / in [...] / not in [...]   (or a local holding P.op)
            lp_ = self.path(l, st) if isinstance(l, (ast.Attribute, ast.Name)) else None
            if lp_ is not None and (lp_.endswith(".op") or (isinstance(l, ast.Name) and "." not in lp_ and "[" not in lp_)):
                p = lp_[:-3] if lp_.endswith(".op") else lp_
                if p is not None:
                    vals = None
                    if isinstance(r, ast.Constant) and isinstance(r.value, str):
                        vals = [r.value]
                    elif isinstance(r, ast.Name) and r.id in self.consts:
                        vals = [self.consts[r.id]]
                    elif isinstance(r, (ast.List, ast.Tuple, ast.Set)):
                        vals = []
                        for e in r.elts:
                            if isinstance(e, ast.Constant):
                                vals.append(e.value)
                            elif isinstance(e, ast.Name) and e.id in self.consts:
                                vals.append(self.consts[e.id])
                            else:
                                vals = None
                                break
                    if vals is not None:
                        pos = (isinstance(op, (ast.Eq, ast.In)) and pol) or (isinstance(op, (ast.NotEq, ast.NotIn)) and not pol)
                        if pos:
                            s.ops[p] = frozenset(vals)
                return s
            # len(P.args) cmp n
            for a, b, flip in ((l, r, False), (r, l, True)):
                if isinstance(a, ast.Call) and callee_attr(a) == "len" and a.args and isinstance(b, ast.Constant) and isinstance(b.value, int):
                    arg = a.args[0]
                    p = self.path(arg.value, st) if isinstance(arg, ast.Attribute) and arg.attr == "args" else self.path(arg, st)
                    if p is None:
                        return s
                    n = b.value
                    o = type(op)
                    if flip:
                        o = {ast.Lt: ast.Gt, ast.Gt: ast.Lt, ast.LtE: ast.GtE, ast.GtE: ast.LtE}.get(o, o)
                    if not pol:
                        o = {ast.Eq: ast.NotEq, ast.NotEq: ast.Eq, ast.Lt: ast.GtE, ast.GtE: ast.Lt, ast.Gt: ast.LtE, ast.LtE: ast.Gt}.get(o, None)
                    lo, hi = s.lens.get(p, (0, None))
                    if o is ast.Eq:
                        lo, hi = n, n
                    elif o is ast.GtE:
                        lo = max(lo, n)
                    elif o is ast.Gt:
                        lo = max(lo, n + 1)
                    elif o is ast.LtE:
                        hi = n if hi is None else min(hi, n)
                    elif o is ast.Lt:
                        hi = n - 1 if hi is None else min(hi, n - 1)
                    s.lens[p] = (lo, hi)
                    return s
        return s

    # ---------------------------------------------------------------- reads
    def kind_of(self, p, st):
        if p in st.kind:
            return st.kind[p]
        # element of a sequence with a universal fact: P.args[k] / P[k]
        if p.endswith("]"):
            base = p[:p.rindex("[")]
            if base in st.elem:
                return st.elem[base]
        return None

    def arity_of(self, p, st):
        lo, hi = st.lens.get(p, (0, None))
        ops = st.ops.get(p)
        if ops:
            los, his = [], []
            for o in ops:
                key = o
                if o.startswith("pfx:"):
                    a = (1, 1) if o in UNARY_OPS or o[4:].startswith(("zeroExt", "signExt")) else None
                elif o in BINARY_OPS:
                    a = (2, 2)
                elif o in UNARY_OPS:
                    a = (1, 1)
                elif o in NARY_OPS:
                    a = (2, None)
                elif o == "-":
                    a = (1, 2)
                elif o in self.flag_arity():
                    n = self.flag_arity()[o]
                    a = (n, n)
                else:
                    a = None
                if a is None:
                    los, his = None, None
                    break
                los.append(a[0])
                his.append(a[1])
            if los:
                lo = max(lo, min(los))
                h2 = None if any(h is None for h in his) else max(his)
                hi = h2 if hi is None else (hi if h2 is None else min(hi, h2))
        return lo, hi

    _FLAGS = None

    def flag_arity(self):
        if Analysis._FLAGS is None:
            out = {}
            try:
                m = self.repo.mod("miasm/expression/simplifications_explicit.py")
                f = m.func("simp_flags")
                from .astutil import arm_when, positive_test
                for n in ast.walk(f):
                    pt_ = positive_test(n) if isinstance(n, ast.If) else None
                    if pt_ is not None and isinstance(pt_, ast.Call) and dotted(pt_.func) == "expr.is_op" and pt_.args \
                            and isinstance(pt_.args[0], ast.Constant):
                        ar = 0
                        region = arm_when(n, True)
                        # only up to the next dispatch test: what follows belongs to other operators
                        cut = []
                        for s_ in region:
                            if isinstance(s_, ast.If) and s_ is not n and isinstance(positive_test(s_), ast.Call) and dotted(positive_test(s_).func) == "expr.is_op":
                                break
                            cut.append(s_)
                        for x in ast.walk(ast.Module(body=cut, type_ignores=[])):
                            if isinstance(x, ast.Assign) and isinstance(x.targets[0], ast.Tuple) and norm(x.value) == "args":
                                ar = max(ar, len(x.targets[0].elts))
                            if isinstance(x, ast.Subscript) and norm(x.value) == "args" and isinstance(x.slice, ast.Constant):
                                ar = max(ar, x.slice.value + 1)
                        if ar:
                            out[pt_.args[0].value] = ar
            except Exception:
                pass
            # FLAG_SIGN_ADD is produced by no lifter and has no branch in simp_flags; by symmetry with FLAG_SIGN_SUB it is binary
            out.setdefault("FLAG_SIGN_ADD", 2)
            Analysis._FLAGS = out
        return Analysis._FLAGS

    def record(self, node, what, ok, detail):
        key = "%s@%s" % (what, norm(node)[:40])
        self.out.append((key, ok, self.mod.where(node), detail))

    def visit(self, e, st):
        """Walk expression `e` in evaluation order, recording obligations for class-specific reads; returns nothing."""
        if e is None:
            return
        if isinstance(e, ast.BoolOp):
            s = st
            for v in e.values:
                self.visit(v, s)
                s = self.refine(s, v, isinstance(e.op, ast.And))
            return
        if isinstance(e, ast.IfExp):
            self.visit(e.test, st)
            self.visit(e.body, self.refine(st, e.test, True))
            self.visit(e.orelse, self.refine(st, e.test, False))
            return
        if isinstance(e, (ast.ListComp, ast.GeneratorExp, ast.SetComp, ast.DictComp)):
            s = st.copy()
            for g in e.generators:
                self.visit(g.iter, s)
                lp = self.seq_path(g.iter, s)
                for t in ([g.target] if isinstance(g.target, ast.Name) else (g.target.elts if isinstance(g.target, ast.Tuple) else [])):
                    if isinstance(t, ast.Name):
                        self.kill_root(s, t.id)
                if isinstance(g.target, ast.Name) and lp is not None:
                    s.alias[g.target.id] = lp + "[*]"
                    if lp in s.elem:
                        s.kind[lp + "[*]"] = s.elem[lp]
                for c in g.ifs:
                    self.visit(c, s)
                    s = self.refine(s, c, True)
            if isinstance(e, ast.DictComp):
                self.visit(e.key, s)
                self.visit(e.value, s)
            else:
                self.visit(e.elt, s)
            return
        if isinstance(e, ast.Lambda):
            return
        if isinstance(e, ast.Call):
            if isinstance(e.func, ast.Name) and e.func.id == "int" and len(e.args) == 1:
                p = self.path(e.args[0], st)
                if p is not None:
                    k = self.kind_of(p, st)
                    if p in self.py_locals:
                        return
                    ok = k is not None and (k <= frozenset(["ExprInt"]) or k == frozenset(["py"]))
                    self.record(e, "int(%s)" % p, ok, "int() is applied to `%s`, which is %s here: only an ExprInt converts to a Python integer (TypeError otherwise)"
                                % (p, "not known to be a constant" if k is None else "possibly one of %s" % sorted(k)))
            self.visit(e.func, st)
            for a in e.args:
                self.visit(a.value if isinstance(a, ast.Starred) else a, st)
            for kw in e.keywords:
                self.visit(kw.value, st)
            return
        if isinstance(e, ast.Attribute):
            self.visit(e.value, st)
            if e.attr in NEED and isinstance(e.ctx, ast.Load):
                p = self.path(e.value, st)
                if p is not None:
                    k = self.kind_of(p, st)
                    need = NEED[e.attr]
                    ok = k is not None and k <= need
                    self.record(e, "%s.%s" % (p, e.attr), ok,
                                "`.%s` is read on `%s`, which is %s on some path to this point; only %s has that attribute (AttributeError otherwise)"
                                % (e.attr, p, "of unknown class" if k is None else "possibly one of %s" % sorted(k), "/".join(sorted(need))))
            return
        if isinstance(e, ast.Subscript):
            self.visit(e.value, st)
            if not isinstance(e.slice, ast.Slice):
                self.visit(e.slice, st)
                # P.args[k] needs arity > k on an immutable expression
                if isinstance(e.value, ast.Attribute) and e.value.attr == "args" and isinstance(e.ctx, ast.Load):
                    p = self.path(e.value.value, st)
                    idx = e.slice
                    k = None
                    if isinstance(idx, ast.Constant) and isinstance(idx.value, int):
                        k = idx.value
                    elif isinstance(idx, ast.UnaryOp) and isinstance(idx.op, ast.USub) and isinstance(idx.operand, ast.Constant):
                        k = -idx.operand.value
                    if p is not None and k is not None:
                        lo, hi = self.arity_of(p, st)
                        need = k + 1 if k >= 0 else -k
                        ok = lo >= need
                        self.record(e, "%s.args[%d]" % (p, k), ok,
                                    "`%s.args[%d]` is read where the node is only known to have at least %d argument(s) (IndexError otherwise)" % (p, k, lo))
            else:
                for x in (e.slice.lower, e.slice.upper, e.slice.step):
                    self.visit(x, st)
            return
        for c in ast.iter_child_nodes(e):
            if isinstance(c, ast.expr):
                self.visit(c, st)

    # ---------------------------------------------------------------- statements
    def assign(self, st, targets, value):
        """Effect of `targets = value` (value already visited with the old state)."""
        s = st.copy()
        # evaluate the right-hand side with the OLD environment
        def rhs_info(v):
            if isinstance(v, ast.Attribute) and v.attr == "size":
                return None, frozenset(["py"]), None, None
            p = self.path(v, st)
            k = None
            ops = None
            if p is not None:
                return p, self.kind_of(p, st), st.ops.get(p), st.lens.get(p)
            if isinstance(v, ast.Call) and isinstance(v.func, ast.Attribute) and v.func.attr == "pop" and not v.args:
                lp = self.seq_path(v.func.value, st)
                if lp is not None:
                    kk = st.kind.get(lp + "[-1]")
                    if kk is None:
                        kk = st.elem.get(lp)
                    return None, kk, st.ops.get(lp + "[-1]"), st.lens.get(lp + "[-1]")
            if isinstance(v, ast.Call):
                ca = callee_attr(v)
                if isinstance(v.func, ast.Name) and ca == "int" or (isinstance(v.func, ast.Subscript) and dotted(v.func.value) in ("mod_size2uint", "mod_size2int")) \
                        or ca in ("len", "parity", "pow", "abs", "min", "max"):
                    return None, frozenset(["py"]), None, None
                if ca in CTOR:
                    k = CTOR[ca]
                    if ca == "ExprOp" and v.args and isinstance(v.args[0], ast.Constant):
                        ops = frozenset([v.args[0].value])
                    elif ca == "ExprOp" and v.args and isinstance(v.args[0], ast.Name) and v.args[0].id in self.consts:
                        ops = frozenset([self.consts[v.args[0].id]])
                elif ca == "msb":
                    k = frozenset(["ExprSlice"])
            if self.is_py(v, st):
                return None, frozenset(["py"]), None, None
            if isinstance(v, ast.UnaryOp) and isinstance(v.op, ast.USub) and self.path(v.operand, st) is not None:
                k = frozenset(["ExprOp"])
                ops = frozenset(["-"])
            if isinstance(v, ast.BinOp) and (self.path(v.left, st) is not None or self.path(v.right, st) is not None):
                if isinstance(v.op, (ast.Add, ast.Sub, ast.Mult, ast.BitAnd, ast.BitOr, ast.BitXor, ast.LShift, ast.RShift, ast.Mod, ast.Div, ast.FloorDiv, ast.Pow)):
                    k = frozenset(["ExprOp"])
            return None, k, ops, None
        infos = []
        if len(targets) == 1 and isinstance(targets[0], (ast.Tuple, ast.List)):
            tg = targets[0].elts
            if isinstance(value, (ast.Tuple, ast.List)) and len(value.elts) == len(tg):
                for t, v in zip(tg, value.elts):
                    infos.append((t, rhs_info(v)))
            else:
                p = self.path(value, st)
                # a, b = P.args   (arity must equal the number of targets)
                if p is not None and p.endswith(".args"):
                    base = p[:-5]
                    lo, hi = self.arity_of(base, st)
                    n = len(tg)
                    ok = lo == n and hi == n
                    self.record(targets[0], "unpack %s" % p, ok,
                                "`%s = %s` needs exactly %d arguments; the node is known to have between %s and %s" % (norm(targets[0]), p, n, lo, hi if hi is not None else "any number"))
                    for i, t in enumerate(tg):
                        infos.append((t, ("%s[%d]" % (p, i), self.kind_of("%s[%d]" % (p, i), st), st.ops.get("%s[%d]" % (p, i)), st.lens.get("%s[%d]" % (p, i)))))
                else:
                    for t in tg:
                        infos.append((t, (None, None, None, None)))
        else:
            for t in targets:
                infos.append((t, rhs_info(value)))
        if isinstance(value, ast.Call) and isinstance(value.func, ast.Attribute) and value.func.attr == "pop" and not value.args \
                and isinstance(value.func.value, ast.Name):
            L = value.func.value.id
            for dn in ("kind", "ops", "lens"):
                d = getattr(s, dn)
                old = dict((q, v) for q, v in d.items() if q.startswith(L + "[-"))
                for q in old:
                    del d[q]
                for q, v in old.items():
                    idx = int(q[len(L) + 2:q.index("]", len(L))])
                    rest = q[q.index("]", len(L)) + 1:]
                    if idx >= 2:
                        d["%s[-%d]%s" % (L, idx - 1, rest)] = v
        for t, (p, k, ops, ln) in infos:
            if isinstance(t, ast.Name):
                self.kill_root(s, t.id)
                if len(infos) == 1 and ((isinstance(value, (ast.List, ast.Set, ast.Tuple)) and not value.elts) or
                                        (isinstance(value, ast.Dict) and not value.keys) or
                                        (isinstance(value, ast.Call) and callee_attr(value) in ("set", "list", "dict") and not value.args)):
                    s.elem[t.id] = frozenset()
                    s.elem[t.id + "{}"] = frozenset()
                    continue
                if p is not None and not (p == t.id or p.startswith(t.id + ".") or p.startswith(t.id + "[")):
                    s.alias[t.id] = p
                else:
                    # rebinding to a value derived from itself (args = args[0].args): what was known below that path
                    # is now known below the name
                    if p is not None:
                        for dn in ("kind", "ops", "lens", "elem"):
                            src = getattr(st, dn)
                            dst = getattr(s, dn)
                            for q in [q for q in src if q == p or q.startswith(p + ".") or q.startswith(p + "[")]:
                                dst[t.id + q[len(p):]] = src[q]
                    if k is not None:
                        s.kind[t.id] = k
                    if ops is not None:
                        s.ops[t.id] = ops
                    if ln is not None:
                        s.lens[t.id] = ln
            elif isinstance(t, ast.Subscript):
                base = t.value
                while isinstance(base, (ast.Subscript, ast.Attribute)):
                    base = base.value
                if isinstance(base, ast.Name):
                    if isinstance(t.value, ast.Name) and isinstance(value, (ast.List,)) and not value.elts:
                        continue      # D[key] = [] : a new empty list among D's values
                    # element store into a local container: forget the container's element facts
                    keep = s.elem.get(base.id + "{}")
                    self.kill_root(s, base.id)
            elif isinstance(t, ast.Attribute):
                pass
        return s

    def flow(self, nd, st):
        a = nd.ast
        if st is None or a is None:
            return st
        if nd.kind == "test":
            self.check_node(nd, st)
            return st
        if nd.kind == "for":
            self.check_expr(nd, a.iter, st)
            s = st.copy()
            it = a.iter
            dict_items = False
            if isinstance(it, ast.Call) and callee_attr(it) == "enumerate" and it.args:
                it = it.args[0]
            if isinstance(it, ast.Call) and callee_attr(it) in ("viewitems", "items", "iteritems") :
                dict_items = True
                it = it.args[0] if it.args else it.func.value
            lp = self.seq_path(it, st)
            tg = a.target
            names = [tg] if isinstance(tg, ast.Name) else [x for x in ast.walk(tg) if isinstance(x, ast.Name)]
            for t in names:
                self.kill_root(s, t.id)
            elt = tg
            if isinstance(a.iter, ast.Call) and callee_attr(a.iter) == "enumerate" and isinstance(tg, ast.Tuple) and len(tg.elts) == 2:
                elt = tg.elts[1]
            if dict_items and isinstance(tg, ast.Tuple) and len(tg.elts) == 2 and lp is not None:
                # for k, v in viewitems(D): v is one of D's values (lists filled by D[k].append(x))
                elt = tg.elts[1]
                lp = lp + "{}"
                if isinstance(elt, ast.Name):
                    s.alias[elt.id] = lp
                    return s
            if isinstance(elt, ast.Name) and lp is not None:
                s.alias[elt.id] = lp + "[*]"
                if lp in st.elem:
                    s.kind[lp + "[*]"] = st.elem[lp]
                else:
                    s.kind.pop(lp + "[*]", None)
            return s
        if nd.kind in ("with", "except", "loop"):
            return st
        if isinstance(a, ast.Assign):
            self.check_expr(nd, a.value, st)
            for t in a.targets:
                if isinstance(t, (ast.Subscript, ast.Attribute)):
                    self.check_expr(nd, t.value, st)
            saved = self.out
            self.out = cur = []
            res = self.assign(st, a.targets, a.value)
            self.out = saved
            self.pending[(nd.id, -1)] = cur
            return res
        if isinstance(a, ast.AugAssign):
            self.check_expr(nd, a.value, st)
            s = st.copy()
            if isinstance(a.target, ast.Name):
                self.kill_root(s, a.target.id)
            return s
        if isinstance(a, (ast.Return, ast.Expr)):
            v = a.value
            self.check_expr(nd, v, st)
            s = st
            # in-place mutation of a local container
            if isinstance(v, ast.Call) and isinstance(v.func, ast.Attribute) and v.func.attr in ("pop", "append", "remove", "insert", "extend", "add", "discard", "clear", "sort", "reverse"):
                base = v.func.value
                if v.func.attr == "append" and v.args and (
                        (isinstance(base, ast.Subscript) and isinstance(base.value, ast.Name)) or
                        (isinstance(base, ast.Call) and isinstance(base.func, ast.Attribute) and base.func.attr == "setdefault" and isinstance(base.func.value, ast.Name))):
                    dname = base.value.id if isinstance(base, ast.Subscript) else base.func.value.id
                    s = st.copy()
                    p = self.path(v.args[0], st)
                    k = self.kind_of(p, st) if p is not None else None
                    key = dname + "{}"
                    cur = s.elem.get(key)
                    if k is not None and cur is not None:
                        s.elem[key] = cur | k
                    else:
                        s.elem.pop(key, None)
                    return s
                if isinstance(base, ast.Name):
                    s = st.copy()
                    if v.func.attr in ("add", "append") and v.args:
                        # container filled under a guard: remember the universal element fact when every insertion agrees
                        p = self.path(v.args[0], st)
                        k = self.kind_of(p, st) if p is not None else None
                        cur = s.elem.get(base.id)
                        if k is not None and cur is not None:
                            s.elem[base.id] = cur | k
                        else:
                            s.elem.pop(base.id, None)
                        for dn in (s.kind, s.ops, s.lens):
                            for q in [q for q in dn if q.startswith(base.id + "[")]:
                                del dn[q]
                    else:
                        self.kill_root(s, base.id)
            return s
        if isinstance(a, ast.Delete):
            s = st.copy()
            for t in a.targets:
                base = t
                while isinstance(base, (ast.Subscript, ast.Attribute)):
                    base = base.value
                if isinstance(base, ast.Name):
                    self.kill_root(s, base.id)
            return s
        if isinstance(a, (ast.Assert,)):
            self.check_expr(nd, a.test, st)
            return self.refine(st, a.test, True)
        if isinstance(a, ast.Raise):
            self.check_expr(nd, a.exc, st)
            return st
        return st

    def edge(self, nd, label, st):
        if st is None:
            return None
        if nd.kind == "test" and label in (True, False):
            return self.refine(st, nd.ast, label)
        return st

    def check_expr(self, nd, e, st):
        if e is None:
            return
        if (nd.id, id(e)) in self.seen:
            # re-visits during the fix point overwrite earlier verdicts of the same read
            pass
        self._cur = []
        saved = self.out
        self.out = self._cur
        self.visit(e, st)
        self.out = saved
        self.pending[(nd.id, id(e))] = self._cur

    def check_node(self, nd, st):
        self.check_expr(nd, nd.ast, st)

    def special_pop(self, st, nd):
        return st

    def run(self):
        cfg = CFG(self.fn)
        self.pending = {}
        init = St()
        if self.exprp:
            init.kind[self.exprp] = frozenset([self.kcls])
        IN, OUT = cfg.forward(init, self.flow, join, self.edge)
        # the verdicts computed at the fix point are those of the last visit of each node
        final = {}
        for nid in IN:
            nd = cfg.nodes[nid]
            self.pending = {}
            self.flow(nd, IN[nid])
            for k, v in self.pending.items():
                final[k] = v
        res = []
        for k in sorted(final, key=lambda x: x[0]):
            res.extend(final[k])
        return res


def check_function(repo, mod, fn, kcls):
    from .dispatch import tok_consts
    consts = tok_consts(repo)
    an = Analysis(repo, mod, fn, kcls, consts)
    res = an.run()
    # one verdict per (read, site): a read is discharged only if every visit of it was
    merged = {}
    for (key, ok, where, detail) in res:
        k = (key, where)
        if k not in merged:
            merged[k] = [ok, detail]
        else:
            merged[k][0] = merged[k][0] and ok
            if not ok:
                merged[k][1] = detail
    return [(key, v[0], where, v[1]) for (key, where), v in sorted(merged.items())]
