"""Translation terms: what a translator builds for one operator at one width (sa/peval over the translator's source).

    z3_term(repo, op, nargs, size)    -> Term built by TranslatorZ3.from_ExprOp for op(a, b, ...) at `size` bits
    smt2_term(repo, op, nargs, size)  -> Term (s-expression) built by TranslatorSMT2.from_ExprOp

plus readers of the term families used by the composite translations:
    xor_chain(term, lang)             -> (constant parity bit, sorted list of (leaf, bit index))  or None
    bit_decision_list(term, lang)     -> ([(bit index, value), ...] outermost first, default value when no tested bit is set)  or None
"""
import ast

from .peval import Interp, FakeExpr, Term, Undetermined

Z3 = "miasm/ir/translators/z3_ir.py"
SMT2 = "miasm/ir/translators/smt2.py"
SMT2H = "miasm/expression/smt2_helper.py"


def _class_consts(mod, cls):
    out = {}
    for st in mod.cls(cls).body:
        if isinstance(st, ast.Assign) and len(st.targets) == 1 and isinstance(st.targets[0], ast.Name):
            try:
                out[st.targets[0].id] = ast.literal_eval(st.value)
            except Exception:
                pass
    return out


def _leaf_from_expr():
    return ast.parse("def from_expr(self, expr):\n    return __leaf__(expr)").body[0]


class _LeafInterp(Interp):
    def ev(self, e, env):
        if isinstance(e, ast.Call) and isinstance(e.func, ast.Name) and e.func.id == "__leaf__":
            x = self.ev(e.args[0], env)
            return self.translate_leaf(x)
        return Interp.ev(self, e, env)

    def translate_leaf(self, x):
        if not isinstance(x, FakeExpr):
            raise Undetermined("from_expr of a non expression")
        if x.kind == "id":
            return Term("leaf", x.name, x.size)
        if x.kind == "op" and x.op.startswith("signExt_"):
            return Term("sext", x.size, self.translate_leaf(x.args[0]))
        if x.kind == "op" and x.op.startswith("zeroExt_"):
            return Term("zext", x.size, self.translate_leaf(x.args[0]))
        raise Undetermined("from_expr(%r)" % (x,))


def _run(repo, rel, cls, helpers_rel, op, nargs, size, arg_sizes=None):
    m = repo.mod(rel)
    meths = dict((q.split(".", 1)[1], f) for q, f in m.funcs.items() if q.startswith(cls + ".") and q.count(".") == 1)
    meths["from_expr"] = _leaf_from_expr()
    funcs = {}
    if helpers_rel:
        hm = repo.mod(helpers_rel)
        funcs = dict((q, f) for q, f in hm.funcs.items() if "." not in q)
    funcs.update((q, f) for q, f in m.funcs.items() if "." not in q)          # the translator module's own helpers
    it = _LeafInterp(functions=funcs, methods=meths, consts={})
    selfobj = {"__self__": True}
    selfobj.update(_class_consts(m, cls))
    sizes = arg_sizes or [size] * nargs
    leaves = [FakeExpr("id", s, name="abcd"[i]) for i, s in enumerate(sizes)]
    expr = FakeExpr("op", size, op=op, args=leaves)
    return it.call_function(meths["from_ExprOp"], [expr], self_obj=selfobj)


def z3_term(repo, op, nargs, size, arg_sizes=None):
    return _run(repo, Z3, "TranslatorZ3", None, op, nargs, size, arg_sizes)


def smt2_term(repo, op, nargs, size, arg_sizes=None):
    return deep_parse(_run(repo, SMT2, "TranslatorSMT2", SMT2H, op, nargs, size, arg_sizes))


def deep_parse(t):
    """Concrete pieces of SMT-LIB text inside a term are read into terms too."""
    from .peval import sexpr_to_term
    if isinstance(t, str):
        st = t.strip()
        if st.startswith("(") and st.endswith(")"):
            try:
                return deep_parse(sexpr_to_term(st))
            except Exception:
                return t
        return t
    if isinstance(t, Term):
        return Term(t.head, *[deep_parse(a) for a in t.args])
    return t


# ---------------------------------------------------------------------------------------------------------------------
# readers

def _smt_const(t):
    """'(_ bv5 8)' (text) or Term('sx','_','bv5','8') -> (5, 8); folds (bvsub c c) / (bvadd c c)."""
    if isinstance(t, str):
        t = t.strip()
        if t.startswith("(_ bv") and t.endswith(")"):
            parts = t[1:-1].split()
            if len(parts) == 3 and parts[1][2:].isdigit() and parts[2].isdigit():
                return int(parts[1][2:]), int(parts[2])
        if t.startswith("("):
            from .peval import sexpr_to_term
            try:
                return _smt_const(sexpr_to_term(t))
            except Exception:
                return None
        return None
    if isinstance(t, Term) and t.head == "sx":
        a = t.args
        if len(a) == 3 and a[0] == "_" and isinstance(a[1], str) and a[1].startswith("bv") and a[1][2:].isdigit() and str(a[2]).isdigit():
            return int(a[1][2:]), int(a[2])
        if len(a) == 3 and a[0] in ("bvsub", "bvadd"):
            x, y = _smt_const(a[1]), _smt_const(a[2])
            if x and y and x[1] == y[1]:
                v = (x[0] - y[0]) if a[0] == "bvsub" else (x[0] + y[0])
                return v % (1 << x[1]), x[1]
    return None


def _z3_const(t):
    if isinstance(t, int) and not isinstance(t, bool):
        return t, None
    if isinstance(t, Term) and t.head == "z3.BitVecVal" and len(t.args) == 2 and isinstance(t.args[0], int):
        return t.args[0], t.args[1]
    return None


def _bit_of(t, lang):
    """(leaf term, bit index) when t is a one-bit extract of a leaf, looking through an enclosing low-byte extract."""
    if lang == "z3":
        if isinstance(t, Term) and t.head == "z3.Extract" and len(t.args) == 3 and t.args[0] == t.args[1] and isinstance(t.args[0], int):
            base, off = _strip_low_extract(t.args[2], lang)
            if base is not None:
                return base, t.args[0] + off
    else:
        if isinstance(t, Term) and t.head == "sx" and len(t.args) == 2 and isinstance(t.args[0], Term) and t.args[0].head == "sx":
            ex = t.args[0].args
            if len(ex) == 4 and ex[0] == "_" and ex[1] == "extract" and str(ex[2]).isdigit() and ex[2] == ex[3]:
                base, off = _strip_low_extract(t.args[1], lang)
                if base is not None:
                    return base, int(ex[2]) + off
    return None


def _strip_low_extract(t, lang):
    """leaf -> (leaf, 0); Extract(hi, lo, leaf) -> (leaf, lo) (bit i of the extract is bit lo + i of the leaf, valid for i <= hi - lo)."""
    if isinstance(t, Term) and t.head == "leaf":
        return t, 0
    if lang == "z3" and isinstance(t, Term) and t.head == "z3.Extract" and len(t.args) == 3 and isinstance(t.args[2], Term) and t.args[2].head == "leaf" \
            and isinstance(t.args[0], int) and isinstance(t.args[1], int):
        return t.args[2], t.args[1]
    if lang == "smt2" and isinstance(t, Term) and t.head == "sx" and len(t.args) == 2 and isinstance(t.args[0], Term) and t.args[0].head == "sx" \
            and isinstance(t.args[1], Term) and t.args[1].head == "leaf":
        ex = t.args[0].args
        if len(ex) == 4 and ex[0] == "_" and ex[1] == "extract" and str(ex[2]).isdigit() and str(ex[3]).isdigit():
            return t.args[1], int(ex[3])
    return None, 0


def xor_chain(t, lang):
    """XOR of one-bit pieces: returns (constant bit, sorted [(leaf name, bit index)] with duplicates cancelled) or None."""
    const = 0
    bits = {}

    def rec(x):
        nonlocal const
        if lang == "z3" and isinstance(x, Term) and x.head == "op" and x.args[0] == "^":
            return rec(x.args[1]) and rec(x.args[2])
        if lang == "smt2" and isinstance(x, Term) and x.head == "sx" and len(x.args) == 3 and x.args[0] == "bvxor":
            return rec(x.args[1]) and rec(x.args[2])
        c = _z3_const(x) if lang == "z3" else _smt_const(x)
        if c is not None and c[1] in (1, None, "1"):
            const ^= c[0] & 1
            return True
        b = _bit_of(x, lang)
        if b is not None:
            k = (b[0].args[0], b[1])
            bits[k] = bits.get(k, 0) ^ 1
            return True
        return False
    if not rec(t):
        return None
    return const, sorted(k for k, v in bits.items() if v)


def bit_decision_list(t, lang, size):
    """An if-chain whose tests are single-bit tests of one leaf: ([(bit, value)...] outermost first, default).
    z3:   If((src & 2**i) != 0, v, rest)            default: If(src == 0, W, src) evaluated for src == 0, or a constant
    smt2: (ite (distinct (bvand src (bvshl one i)) zero) v rest)"""
    chain = []
    cur = t
    while True:
        step = _ite(cur, lang)
        if step is None:
            break
        cond, then, els = step
        bit = _single_bit_test(cond, lang, size)
        if bit is None:
            break
        v = _z3_const(then) if lang == "z3" else _smt_const(then)
        chain.append((bit, v[0] if v is not None else ("term", repr(then)[:40])))
        cur = els
    # default
    d = _z3_const(cur) if lang == "z3" else _smt_const(cur)
    if d is None:
        step = _ite(cur, lang)
        if step is not None and _is_zero_test(step[0], lang):
            d = _z3_const(step[1]) if lang == "z3" else _smt_const(step[1])
    if not chain:
        return None
    return chain, (d[0] if d is not None else ("term", repr(cur)[:40]))


def _ite(t, lang):
    if lang == "z3" and isinstance(t, Term) and t.head == "z3.If" and len(t.args) == 3:
        return t.args
    if lang == "smt2" and isinstance(t, Term) and t.head == "sx" and len(t.args) == 4 and t.args[0] == "ite":
        return t.args[1:]
    return None


def _is_zero_test(c, lang):
    if lang == "z3":
        return isinstance(c, Term) and c.head == "cmp" and c.args[0] == "==" and isinstance(c.args[1], Term) and c.args[1].head == "leaf" and c.args[2] == 0
    return False


def _single_bit_test(c, lang, size):
    """index i when c says "bit i of the leaf is set"."""
    if lang == "z3":
        if isinstance(c, Term) and c.head == "cmp" and c.args[0] == "!=" and c.args[2] == 0:
            a = c.args[1]
            if isinstance(a, Term) and a.head == "op" and a.args[0] == "&":
                x, y = a.args[1], a.args[2]
                for leaf, mask in ((x, y), (y, x)):
                    if isinstance(leaf, Term) and leaf.head == "leaf" and isinstance(mask, int) and mask > 0 and mask & (mask - 1) == 0:
                        return mask.bit_length() - 1
        return None
    if isinstance(c, Term) and c.head == "sx" and len(c.args) == 3 and c.args[0] == "distinct":
        a, z = c.args[1], c.args[2]
        zc = _smt_const(z)
        if zc is None or zc[0] != 0:
            return None
        if isinstance(a, Term) and a.head == "sx" and len(a.args) == 3 and a.args[0] == "bvand":
            x, y = a.args[1], a.args[2]
            for leaf, mask in ((x, y), (y, x)):
                if isinstance(leaf, Term) and leaf.head == "leaf":
                    mc = _smt_const(mask)
                    if mc is not None and mc[0] > 0 and mc[0] & (mc[0] - 1) == 0:
                        return mc[0].bit_length() - 1
                    if isinstance(mask, Term) and mask.head == "sx" and len(mask.args) == 3 and mask.args[0] == "bvshl":
                        one, sh = _smt_const(mask.args[1]), _smt_const(mask.args[2])
                        if one and sh and one[0] == 1:
                            return sh[0]
    return None


def decision_list_value(chain, default, kind, k, size):
    """Value of the decision list on the class of inputs whose LOWEST (kind='low') / HIGHEST (kind='high') set bit is k;
    k = None: no bit set.  Returns ('value', v) or ('ambiguous', bit) when a test of a bit that may or may not be set comes first."""
    if k is None:
        return ("value", default)
    for (bit, v) in chain:
        if bit == k:
            return ("value", v)
        definitely_zero = (bit < k) if kind == "low" else (bit > k)
        if not definitely_zero:
            return ("ambiguous", bit)
    return ("value", default)


# ---------------------------------------------------------------------------------------------------------------------
# structural handlers and memory models

def _byte_getitem():
    return ast.parse("def __getitem__(self, addr):\n    return __byte__(addr)").body[0]


class _StructInterp(_LeafInterp):
    def ev(self, e, env):
        if isinstance(e, ast.Call) and isinstance(e.func, ast.Name) and e.func.id == "__byte__":
            return Term("byte", self.ev(e.args[0], env))
        if isinstance(e, ast.Subscript) and not isinstance(e.slice, ast.Slice):
            base = Interp.ev(self, e.value, env)
            if isinstance(base, dict) and base.get("__self__") and "__getitem__" in self.methods:
                return self.call_function(self.methods["__getitem__"], [self.ev(e.slice, env)], self_obj=base)
        return _LeafInterp.ev(self, e, env)

    def translate_leaf(self, x):
        if isinstance(x, FakeExpr) and x.kind == "id":
            return Term("leaf", x.name, x.size)
        return _LeafInterp.translate_leaf(self, x)


def handler_term(repo, lang, handler, expr, self_extra=None):
    rel, cls, hrel = (Z3, "TranslatorZ3", None) if lang == "z3" else (SMT2, "TranslatorSMT2", SMT2H)
    m = repo.mod(rel)
    meths = dict((q.split(".", 1)[1], f) for q, f in m.funcs.items() if q.startswith(cls + ".") and q.count(".") == 1)
    meths["from_expr"] = _leaf_from_expr()
    funcs = {}
    if hrel:
        hm = repo.mod(hrel)
        funcs = dict((q, f) for q, f in hm.funcs.items() if "." not in q)
    funcs.update((q, f) for q, f in m.funcs.items() if "." not in q)
    it = _StructInterp(functions=funcs, methods=meths, consts={})
    it.sym_truthy = (lang == "smt2")
    selfobj = {"__self__": True}
    selfobj.update(_class_consts(m, cls))
    selfobj.update(self_extra or {})
    t = it.call_function(meths[handler], [expr], self_obj=selfobj)
    return deep_parse(t) if lang == "smt2" else t


def mem_term(repo, lang, endianness, size, addr_size=32):
    rel, cls, hrel = (Z3, "Z3Mem", None) if lang == "z3" else (SMT2, "SMT2Mem", SMT2H)
    m = repo.mod(rel)
    meths = dict((q.split(".", 1)[1], f) for q, f in m.funcs.items() if q.startswith(cls + ".") and q.count(".") == 1)
    meths["__getitem__"] = _byte_getitem()
    funcs = {}
    if hrel:
        hm = repo.mod(hrel)
        funcs = dict((q, f) for q, f in hm.funcs.items() if "." not in q)
    funcs.update((q, f) for q, f in m.funcs.items() if "." not in q)
    it = _StructInterp(functions=funcs, methods=meths, consts={})
    it.sym_truthy = (lang == "smt2")
    selfobj = {"__self__": True, "endianness": endianness, "mems": {}, "name": "M"}
    get = meths["get"]
    nparams = len(get.args.args) - 1
    addr = Term("leaf", "addr", addr_size)
    args = [addr, size] + ([addr_size] if nparams >= 3 else [])
    t = it.call_function(get, args, self_obj=selfobj)
    return deep_parse(t) if lang == "smt2" else t


def concat_list(t, lang):
    """Pieces of a nest of concatenations, most significant first."""
    if lang == "z3" and isinstance(t, Term) and t.head == "z3.Concat":
        out = []
        for a in t.args:
            out.extend(concat_list(a, lang))
        return out
    if lang == "smt2" and isinstance(t, Term) and t.head == "sx" and len(t.args) >= 3 and t.args[0] == "concat":
        out = []
        for a in t.args[1:]:
            out.extend(concat_list(a, lang))
        return out
    return [t]


def byte_offset(t, lang):
    """byte(addr + i) -> i ; byte(addr) -> 0 ; else None"""
    if not (isinstance(t, Term) and t.head == "byte"):
        return None
    a = t.args[0]
    if isinstance(a, Term) and a.head == "leaf":
        return 0
    if lang == "z3" and isinstance(a, Term) and a.head == "op" and a.args[0] == "+":
        x, y = a.args[1], a.args[2]
        for l, c in ((x, y), (y, x)):
            if isinstance(l, Term) and l.head == "leaf" and isinstance(c, int):
                return c
    if lang == "smt2" and isinstance(a, Term) and a.head == "sx" and len(a.args) == 3 and a.args[0] == "bvadd":
        x, y = a.args[1], a.args[2]
        for l, c in ((x, y), (y, x)):
            cc = _smt_const(c)
            if isinstance(l, Term) and l.head == "leaf" and cc is not None:
                return cc[0]
    return None


def extract_of(t, lang):
    """(hi, lo, inner) for an extract term, else None"""
    if lang == "z3" and isinstance(t, Term) and t.head == "z3.Extract" and len(t.args) == 3:
        return t.args[0], t.args[1], t.args[2]
    if lang == "smt2" and isinstance(t, Term) and t.head == "sx" and len(t.args) == 2 and isinstance(t.args[0], Term) and t.args[0].head == "sx":
        ex = t.args[0].args
        if len(ex) == 4 and ex[0] == "_" and ex[1] == "extract" and str(ex[2]).lstrip("-").isdigit() and str(ex[3]).lstrip("-").isdigit():
            return int(ex[2]), int(ex[3]), t.args[1]
    return None


# ---------------------------------------------------------------------------------------------------------------------
# the C translator: the text it emits for an operator, with symbolic operand texts

CT = "miasm/ir/translators/C.py"


def _module_consts(repo, rel, extra=None):
    """module-level constants of a translator module evaluated with TOK_* known (dict / list / str / int literals only)"""
    from .dispatch import tok_consts
    m = repo.mod(rel)
    env = dict(tok_consts(repo))
    env.update(extra or {})
    it = Interp(functions={}, methods={}, consts=env)
    out = dict(env)
    for st in m.tree.body:
        if isinstance(st, ast.Assign) and len(st.targets) == 1 and isinstance(st.targets[0], ast.Name):
            try:
                out[st.targets[0].id] = it.ev(st.value, dict(out))
                it.consts = out
            except Exception:
                continue
    return out


class _CInterp(_LeafInterp):
    text_mode = True

    def translate_leaf(self, x):
        if isinstance(x, FakeExpr) and x.kind == "op" and x.op.startswith(("signExt_", "zeroExt_")):
            inner = self.translate_leaf(x.args[0])
            return Term("sext" if x.op.startswith("sign") else "zext", x.size, inner)
        if isinstance(x, FakeExpr) and x.kind == "id":
            return Term("leaf", x.name, x.size)
        return _LeafInterp.translate_leaf(self, x)


def c_term(repo, op, nargs, size, arg_sizes=None):
    m = repo.mod(CT)
    cls = "TranslatorC"
    meths = dict((q.split(".", 1)[1], f) for q, f in m.funcs.items() if q.startswith(cls + ".") and q.count(".") == 1)
    meths["from_expr"] = _leaf_from_expr()
    funcs = dict((q, f) for q, f in m.funcs.items() if "." not in q)
    um = repo.mod("miasm/core/utils.py")
    if "size2mask" in um.funcs:
        funcs["size2mask"] = um.funcs["size2mask"]
    xm = repo.mod("miasm/expression/expression.py")
    if "is_associative" in xm.funcs:
        funcs["is_associative"] = xm.funcs["is_associative"]
    consts = _module_consts(repo, CT)
    if "size2mask" not in funcs:
        v = um.assigns.get("size2mask")
        if isinstance(v, ast.Lambda):
            consts["size2mask"] = ("__lambda__", v, {})
    it = _CInterp(functions=funcs, methods=meths, consts=consts)
    selfobj = {"__self__": True, "loc_db": None}
    selfobj.update(_class_consts(m, cls))
    sizes = arg_sizes or [size] * nargs
    leaves = [FakeExpr("id", s, name="abcd"[i]) for i, s in enumerate(sizes)]
    expr = FakeExpr("op", size, op=op, args=leaves)
    return it.call_function(meths["from_ExprOp"], [expr], self_obj=selfobj)


def ctext_flat(t):
    """(text with §k§ placeholders, [terms]) of a ctext term / plain string"""
    if isinstance(t, str):
        return t, []
    if not (isinstance(t, Term) and t.head == "ctext"):
        return "§0§", [t]
    out, terms = "", []
    for p in t.args:
        if isinstance(p, str):
            out += p
        else:
            out += "§%d§" % len(terms)
            terms.append(p)
    return out, terms


# ---------------------------------------------------------------------------------------------------------------------
# LLVM back end: the builder calls LLVMFunction.add_ir issues for one operator

LLVMC = "miasm/jitter/llvmconvert.py"
_KIND_OF_CLASS = {"ExprInt": "int", "ExprId": "id", "ExprOp": "op", "ExprMem": "mem", "ExprSlice": "slice", "ExprCompose": "compose",
                  "ExprCond": "cond", "ExprLoc": "loc"}


class _LLVMInterp(_LeafInterp):
    """`builder.X(...)`, `LLVMType.X(...)`, `llvm_ir.X(...)`, `self.mod.X(...)` are externals (terms); a term applied to arguments is
    the term ("apply", f, args...); isinstance on the expression handed in is decided from its kind."""

    def ev(self, e, env):
        if isinstance(e, ast.Call) and isinstance(e.func, ast.Name) and e.func.id == "isinstance" and len(e.args) == 2:
            x = self.ev(e.args[0], env)
            classes = e.args[1].elts if isinstance(e.args[1], ast.Tuple) else [e.args[1]]
            names = [c.id if isinstance(c, ast.Name) else getattr(c, "attr", None) for c in classes]
            if isinstance(x, FakeExpr) and all(n in _KIND_OF_CLASS for n in names):
                return x.kind in [_KIND_OF_CLASS[n] for n in names]
            raise Undetermined("isinstance")
        return _LeafInterp.ev(self, e, env)

    def call(self, e, env):
        f = self.ev(e.func, env)
        if isinstance(f, Term):
            return Term("apply", f, *[self.ev(a, env) for a in e.args])
        return _LeafInterp.call(self, e, env)


def llvm_term(repo, op, nargs, size, arg_sizes=None):
    """Term of builder calls that LLVMFunction.add_ir returns for op(a, b, ..) at `size` bits (operands are leaves)."""
    m = repo.mod(LLVMC)
    cls = "LLVMFunction"
    meths = dict((q.split(".", 1)[1], f) for q, f in m.funcs.items() if q.startswith(cls + ".") and q.count(".") == 1)
    real = meths["add_ir"]
    wrapper = ast.parse("def add_ir(self, expr):\n    if expr.is_id():\n        return __leaf__(expr)\n    return self.__add_ir_real__(expr)").body[0]
    meths["add_ir"] = wrapper
    meths["__add_ir_real__"] = real
    consts = _module_consts(repo, LLVMC)
    it = _LLVMInterp(functions={}, methods=meths, consts=consts, externals=("LLVMType", "llvm_ir"))
    selfobj = {"__self__": True, "main_stream": False, "builder": ("__ext__", "B"), "mod": ("__ext__", "mod"),
               "llvm_context": ("__ext__", "ctx"), "expr_cache": {}, "local_vars": {}}
    selfobj.update(_class_consts(m, cls))
    sizes = arg_sizes or [size] * nargs
    leaves = [FakeExpr("id", s, name="abcd"[i]) for i, s in enumerate(sizes)]
    expr = FakeExpr("op", size, op=op, args=leaves)
    return it.call_function(real, [expr], self_obj=selfobj)


# ---------------------------------------------------------------------------------------------------------------------
# C back end: the sequence of segments CGen.gen_c_code emits for one assignment block

CGENF = "miasm/jitter/codegen.py"


def cgen_sequence(repo, has_prefetch, mem_write, set_exception, mem_read=None):
    """Markers, in emission order, of the C lines gen_c_code returns when the five segments are the one-line lists <prefetch> <var> <main>
    <mem> <updt> (prefetch empty when has_prefetch is false), the destination code is <dst>, and the exception tests are replaced by the
    one-line lists <check_mem> / <check_cpu>.  Everything else the function emits (braces, comments) is dropped."""
    m = repo.mod(CGENF)
    cls = "CGen"
    meths = dict((q.split(".", 1)[1], f) for q, f in m.funcs.items() if q.startswith(cls + ".") and q.count(".") == 1)
    meths["gen_check_memory_exception"] = ast.parse("def gen_check_memory_exception(self, address):\n    return ['<check_mem>']").body[0]
    meths["gen_check_cpu_exception"] = ast.parse("def gen_check_cpu_exception(self, address):\n    return ['<check_cpu>']").body[0]
    it = Interp(functions={}, methods=meths, consts=_module_consts(repo, CGENF))
    selfobj = {"__self__": True}
    selfobj.update(_class_consts(m, cls))
    attrib = {"__record__": True, "mem_write": mem_write, "set_exception": set_exception, "mem_read": has_prefetch if mem_read is None else mem_read,
              "instr": {"__record__": True, "offset": 0x1000, "l": 4}, "log_mn": False, "log_regs": False}
    segs = (["<prefetch>"] if has_prefetch else [], ["<var>"], ["<main>"], ["<mem>"], ["<updt>"])
    fn = meths["gen_c_code"]
    params = [a.arg for a in fn.args.args[1:]]
    args = []
    for p_ in params:
        if "attrib" in p_:
            args.append(attrib)
        elif "dst" in p_:
            args.append(["<dst>"])
        else:
            args.append(segs)
    out = it.call_function(fn, args, self_obj=selfobj)
    if not isinstance(out, list):
        raise Undetermined("gen_c_code did not return a list")
    return [x for x in out if isinstance(x, str) and x.startswith("<") and x.endswith(">")]


# ---------------------------------------------------------------------------------------------------------------------
# explicit flag formulas: the expression simp_flags builds for one flag operator over symbolic operands

SXP = "miasm/expression/simplifications_explicit.py"


class _ExprBuildInterp(Interp):
    """operands are `leaf` terms; &, ^, |, +, -, ~ on them build ("op", ...) terms; .msb() / .zeroExtend(n) / .signExtend(n) / .size are
    understood on terms; ExprCond / ExprInt / ExprOp / ExprCompose / ExprSlice are constructors of terms"""

    def tsize(self, t):
        if isinstance(t, Term):
            if t.head == "leaf":
                return t[2]
            if t.head in ("zext", "sext"):
                return t[1]
            if t.head == "msb":
                return 1
            if t.head == "op" and len(t) >= 3:
                return self.tsize(t[2])
            if t.head == "ExprInt" and len(t) == 3 and isinstance(t[2], int):
                return t[2]
            if t.head == "ExprCond" and len(t) == 4:
                return self.tsize(t[2])
        raise Undetermined("size of %r" % (t,))

    def ev(self, e, env):
        if isinstance(e, ast.Attribute) and e.attr == "size":
            b = self.ev(e.value, env)
            if isinstance(b, Term):
                return self.tsize(b)
        if isinstance(e, ast.UnaryOp) and isinstance(e.op, ast.Invert):
            v = self.ev(e.operand, env)
            if isinstance(v, Term):
                return Term("op", "~", v)
        return Interp.ev(self, e, env)

    def call(self, e, env):
        if isinstance(e.func, ast.Attribute) and e.func.attr in ("msb", "zeroExtend", "signExtend", "is_op", "is_int"):
            b = self.ev(e.func.value, env)
            if isinstance(b, Term):
                args = [self.ev(a, env) for a in e.args]
                if e.func.attr == "msb":
                    return Term("msb", b)
                if e.func.attr == "zeroExtend":
                    return b if args[0] == self.tsize(b) else Term("zext", args[0], b)
                if e.func.attr == "signExtend":
                    return b if args[0] == self.tsize(b) else Term("sext", args[0], b)
                if e.func.attr == "is_int":
                    return False
        return Interp.call(self, e, env)


def flag_term(repo, op, sizes):
    """Term simp_flags returns for op(a, b, ..) with operands of the given bit sizes (leaves a, b, c ...)."""
    m = repo.mod(SXP)
    fn = m.func("simp_flags")
    funcs = dict((q, f) for q, f in m.funcs.items() if "." not in q)
    it = _ExprBuildInterp(functions=funcs, methods={}, consts={}, externals=("ExprCond", "ExprInt", "ExprOp", "ExprCompose", "ExprSlice", "ExprId"))
    leaves = [Term("leaf", "abcd"[i], s) for i, s in enumerate(sizes)]

    class _E(FakeExpr):
        pass
    expr = FakeExpr("op", 1, op=op, args=leaves)
    orig_method = expr.method

    def method(name, args):
        if name == "is_op":
            return (not args) or args[0] == op
        return orig_method(name, args)
    expr.method = method
    params = [a.arg for a in fn.args.args]
    return it.call_function(fn, [None, expr][-len(params):] if len(params) <= 2 else [None, expr])


def ac_norm(t):
    """commutative operators (^ & | + *) get their operands sorted (nested chains flattened)"""
    if not isinstance(t, Term):
        return t
    if t.head == "op" and t[1] in ("^", "&", "|", "+", "*") and len(t) == 4:
        items = []

        def flat(x):
            if isinstance(x, Term) and x.head == "op" and x[1] == t[1] and len(x) == 4:
                flat(x[2])
                flat(x[3])
            else:
                items.append(ac_norm(x))
        flat(t)
        return Term("ac", t[1], *sorted(items, key=repr))
    return Term(t.head, *[ac_norm(x) for x in t.args])


def term_subst(t, old, new):
    if t == old:
        return new
    if isinstance(t, Term):
        return Term(t.head, *[term_subst(x, old, new) for x in t.args])
    return t
