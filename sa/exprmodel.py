"""Facts about miasm's Expr classes, parsed from miasm/expression/expression.py on every run."""
import ast

from .astutil import walk_body, norm, dotted, str_elts
from .repo import AnalysisError

REL = "miasm/expression/expression.py"
KINDS = ["ExprInt", "ExprId", "ExprLoc", "ExprAssign", "ExprCond", "ExprMem", "ExprOp", "ExprSlice", "ExprCompose"]
# predicate method of Expr -> class
IS_PRED = {"is_int": "ExprInt", "is_id": "ExprId", "is_loc": "ExprLoc", "is_assign": "ExprAssign",
           "is_aff": "ExprAssign", "is_cond": "ExprCond", "is_mem": "ExprMem", "is_op": "ExprOp",
           "is_slice": "ExprSlice", "is_compose": "ExprCompose"}
# fields whose value is itself an Expr (children) vs scalars; 'args' is a sequence of Expr
CHILD = {"arg_of_slice": True}


class ExprModel(object):
    def __init__(self, repo):
        self.m = repo.mod(REL)
        self.fields = {}    # class -> identity field names (constructor order, no leading underscore)
        for k in KINDS:
            c = self.m.cls(k)
            slots = None
            for st in c.body:
                if isinstance(st, ast.Assign) and any(isinstance(t, ast.Name) and t.id == "__slots__" for t in st.targets):
                    v = st.value
                    if isinstance(v, ast.BinOp) and isinstance(v.op, ast.Add):
                        slots = str_elts(v.right)
                    else:
                        slots = str_elts(v)
            if slots is None:
                raise AnalysisError("cannot read __slots__ of %s" % k)
            f = [s.lstrip("_") for s in slots]
            new = self.m.funcs.get("%s.__new__" % k)
            if new is None:
                raise AnalysisError("anchor vanished: %s.__new__" % k)
            params = [a.arg for a in new.args.args[1:]]
            if new.args.vararg:
                params.append(new.args.vararg.arg)
            # size is an identity field when it is a constructor parameter (Int, Id, Mem)
            if "size" in params and "size" not in f:
                f.append("size")
            self.fields[k] = f
            setattr(self, "params_" + k, params)

    def children(self, k):
        """Expr-valued fields of class k ('args' denotes a sequence)."""
        scal = set(["op", "start", "stop", "size", "name", "loc_key"])
        out = [f for f in self.fields[k] if f not in scal]
        if k == "ExprInt":
            out = []
        return out

    def scalars(self, k):
        scal = set(["op", "start", "stop", "size", "name", "loc_key"])
        out = [f for f in self.fields[k] if f in scal]
        if k == "ExprInt":
            out = ["arg", "size"]
        return out
