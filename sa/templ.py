"""String-template flattening: the text a function emits, as literal chunks and holes.

`flatten(expr)` turns a string-valued expression (after sa.symval substitution) built with %-formatting, str.format, f-strings,
concatenation, str() and SEP.join(<comprehension>) into a list of parts:
    ('lit', text) | ('hole', text_of_the_python_expression, conversion) | ('join', sep_parts, elem_parts, target_text, iter_text)
`skeleton(parts)` renders the parts to one string in which every distinct hole text is replaced by a token H0, H1, ... (the same
expression gets the same token whether it was computed once into a temporary or written twice) and returns (text, {token: hole}).
A numeric hole written with a radix prefix ("0x%x") becomes one token.
"""
import ast
import re

from .astutil import norm, callee_attr

_SPEC = re.compile(r"%(?:\((\w+)\))?([#0\- +]*)(\d+|\*)?(?:\.(\d+))?([sdrxXifcoeEgG%])")


def _is_stringy(e):
    if isinstance(e, ast.Constant) and isinstance(e.value, str):
        return True
    if isinstance(e, ast.JoinedStr):
        return True
    if isinstance(e, ast.BinOp) and isinstance(e.op, ast.Mod) and _is_stringy(e.left):
        return True
    if isinstance(e, ast.BinOp) and isinstance(e.op, ast.Add) and (_is_stringy(e.left) or _is_stringy(e.right)):
        return True
    if isinstance(e, ast.Call) and isinstance(e.func, ast.Attribute) and e.func.attr in ("format", "join") and _is_stringy(e.func.value):
        return True
    return False


def flatten(e):
    if isinstance(e, ast.Constant) and isinstance(e.value, str):
        return [("lit", e.value)]
    if isinstance(e, ast.JoinedStr):
        out = []
        for v in e.values:
            if isinstance(v, ast.Constant):
                out.append(("lit", v.value))
            else:
                conv = {115: "s", 114: "r", 97: "a", -1: "s"}.get(v.conversion, "s")
                spec = norm(v.format_spec) if v.format_spec is not None else ""
                if "x" in spec:
                    conv = "x"
                elif "d" in spec:
                    conv = "d"
                out.extend(_arg(v.value, conv))
        return _merge(out)
    if isinstance(e, ast.BinOp) and isinstance(e.op, ast.Add):
        return _merge(flatten(e.left) + flatten(e.right)) if (_is_stringy(e.left) or _is_stringy(e.right)) else [("hole", norm(e), "s")]
    if isinstance(e, ast.BinOp) and isinstance(e.op, ast.Mod) and _is_stringy(e.left):
        tpl = flatten(e.left)
        args = list(e.right.elts) if isinstance(e.right, ast.Tuple) else [e.right]
        named = isinstance(e.right, ast.Dict)
        out = []
        k = 0
        for p in tpl:
            if p[0] != "lit":
                out.append(p)
                continue
            pos = 0
            for mt in _SPEC.finditer(p[1]):
                out.append(("lit", p[1][pos:mt.start()]))
                pos = mt.end()
                conv = mt.group(5)
                if conv == "%":
                    out.append(("lit", "%"))
                    continue
                if named and mt.group(1):
                    a = None
                    for kk, vv in zip(e.right.keys, e.right.values):
                        if isinstance(kk, ast.Constant) and kk.value == mt.group(1):
                            a = vv
                    out.extend(_arg(a, conv) if a is not None else [("hole", "?" + mt.group(1), conv)])
                elif k < len(args):
                    out.extend(_arg(args[k], conv))
                    k += 1
                else:
                    out.append(("hole", "?missing-argument", conv))
            out.append(("lit", p[1][pos:]))
        return _merge(out)
    if isinstance(e, ast.Call) and isinstance(e.func, ast.Attribute) and e.func.attr == "format" and _is_stringy(e.func.value):
        tpl = flatten(e.func.value)
        out = []
        k = 0
        for p in tpl:
            if p[0] != "lit":
                out.append(p)
                continue
            pos = 0
            for mt in re.finditer(r"\{\{|\}\}|\{(\w*)(?:!([rsa]))?(?::([^}]*))?\}", p[1]):
                out.append(("lit", p[1][pos:mt.start()]))
                pos = mt.end()
                if mt.group(0) in ("{{", "}}"):
                    out.append(("lit", mt.group(0)[0]))
                    continue
                key = mt.group(1)
                conv = mt.group(2) or ("x" if mt.group(3) and "x" in mt.group(3).lower() else "d" if mt.group(3) and "d" in mt.group(3) else "s")
                a = None
                if key == "":
                    a = e.args[k] if k < len(e.args) else None
                    k += 1
                elif key.isdigit():
                    a = e.args[int(key)] if int(key) < len(e.args) else None
                else:
                    for kw in e.keywords:
                        if kw.arg == key:
                            a = kw.value
                out.extend(_arg(a, conv) if a is not None else [("hole", "?" + key, conv)])
            out.append(("lit", p[1][pos:]))
        return _merge(out)
    if isinstance(e, ast.Call) and isinstance(e.func, ast.Attribute) and e.func.attr == "join" and _is_stringy(e.func.value) and len(e.args) == 1:
        sep = flatten(e.func.value)
        x = e.args[0]
        if isinstance(x, (ast.ListComp, ast.GeneratorExp)) and len(x.generators) == 1:
            g = x.generators[0]
            return [("join", tuple(sep), tuple(flatten(x.elt) if _is_stringy(x.elt) else [("hole", norm(x.elt), "s")]), norm(g.target), norm(g.iter),
                     tuple(norm(i) for i in g.ifs))]
        if isinstance(x, (ast.List, ast.Tuple)):
            out = []
            for i, el in enumerate(x.elts):
                if i:
                    out.extend(sep)
                out.extend(_arg(el, "s"))
            return _merge(out)
        if isinstance(x, ast.Call) and callee_attr(x) in ("map", "list") and x.args:
            return [("join", tuple(sep), (("hole", norm(x), "s"),), "?", norm(x), ())]
        return [("join", tuple(sep), (("hole", "?elem", "s"),), "?", norm(x), ())]
    if isinstance(e, ast.Call) and callee_attr(e) == "str" and len(e.args) == 1 and isinstance(e.func, ast.Name):
        return _arg(e.args[0], "s")
    if isinstance(e, ast.IfExp):
        return [("hole", norm(e), "s")]
    return [("hole", norm(e), "s")]


def _arg(a, conv):
    if conv in ("s",) and _is_stringy(a):
        return flatten(a)
    return [("hole", norm(a), conv)]


def _merge(parts):
    out = []
    for p in parts:
        if p[0] == "lit":
            if not p[1]:
                continue
            if out and out[-1][0] == "lit":
                out[-1] = ("lit", out[-1][1] + p[1])
                continue
        out.append(p)
    return out


def skeleton(parts, holes=None, prefix="H"):
    """(text, {token: hole text}) - identical hole texts share a token; '0x' + hex hole is folded into the token."""
    holes = {} if holes is None else holes
    rev = dict((v, k) for k, v in holes.items())
    txt = []
    for p in parts:
        if p[0] == "lit":
            txt.append(p[1])
        elif p[0] == "hole":
            key = p[1]
            if key not in rev:
                tok = "%s%d" % (prefix, len(rev))
                rev[key] = tok
                holes[tok] = key
            tok = rev[key]
            if p[2] in ("x", "X") and txt and txt[-1].lower().endswith("0x"):
                txt[-1] = txt[-1][:-2]
            txt.append(tok)
        elif p[0] == "join":
            sep, _h = skeleton(list(p[1]), holes, prefix)
            rev = dict((v, k) for k, v in holes.items())
            el, _h = skeleton(list(p[2]), holes, prefix)
            rev = dict((v, k) for k, v in holes.items())
            txt.append("JOIN[%s][%s]" % (sep, el))
    return "".join(txt), holes


def joins(parts):
    return [p for p in parts if p[0] == "join"]


def unify(skel, ref, roles):
    """Match the Python expression text `skel` (holes are tokens H<n>) against the reference text `ref` in which the names listed
    in `roles` are variables. Commutative operators (| & ^ + *) match in either operand order. Returns {role: token-or-subtree text}
    or None."""
    try:
        a = ast.parse(skel.strip(), mode="eval").body
        b = ast.parse(ref.strip(), mode="eval").body
    except SyntaxError:
        return None
    return _uni(a, b, set(roles), {})


def _uni(a, b, roles, m):
    if isinstance(b, ast.Name) and b.id in roles:
        t = norm(a)
        if b.id in m:
            return m if m[b.id] == t else None
        m2 = dict(m)
        m2[b.id] = t
        return m2
    if type(a) is not type(b):
        return None
    if isinstance(a, ast.BinOp):
        if type(a.op) is not type(b.op):
            return None
        r = _uni(a.left, b.left, roles, m)
        if r is not None:
            r = _uni(a.right, b.right, roles, r)
        if r is None and isinstance(a.op, (ast.BitOr, ast.BitAnd, ast.BitXor, ast.Add, ast.Mult)):
            r = _uni(a.left, b.right, roles, m)
            if r is not None:
                r = _uni(a.right, b.left, roles, r)
        return r
    if isinstance(a, ast.Constant):
        return m if a.value == b.value else None
    if isinstance(a, ast.Name):
        return m if a.id == b.id else None
    for f in a._fields:
        va, vb = getattr(a, f, None), getattr(b, f, None)
        if isinstance(va, list):
            if not isinstance(vb, list) or len(va) != len(vb):
                return None
            for x, y in zip(va, vb):
                if isinstance(x, ast.AST):
                    m = _uni(x, y, roles, m)
                    if m is None:
                        return None
                elif x != y:
                    return None
        elif isinstance(va, ast.AST):
            if not isinstance(vb, ast.AST):
                return None
            m = _uni(va, vb, roles, m)
            if m is None:
                return None
        elif isinstance(va, (ast.expr_context, ast.operator, ast.unaryop, ast.cmpop, ast.boolop)) or f == "ctx":
            continue
        elif va != vb:
            return None
    return m
