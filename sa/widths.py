"""Width inference for the semantic (lifter) functions of miasm/arch/*/sem.py.

ExprOp (all arguments the same width, a short list of operators excepted), ExprAssign (both sides the same width) and ExprCond
(both sources the same width) raise at construction when widths disagree; every Python operator on expressions builds an ExprOp.
A lifter function that can combine two expressions of *known, different* widths therefore raises for the instruction that takes
that path: the instruction is neither lifted nor reported as unsupported.

The analysis is a forking abstract interpretation of one function at a time:

  values   E(w)   an expression of width w (int) or unknown width (None)
           P(v)   a known Python constant (int, str, bool, None, tuple)
           L([..]) a list / tuple of known length;  D({..}) a dict with constant keys
           S(suffixes) a string known only to end with one of `suffixes`;  ONE([..]) one of several values
           U      anything else
  names    parameters are U (operands: E(None) once used as an expression), module globals come from the architecture's regs.py
           (evaluated by sa/peval as constants: `gen_regs`, `ExprId(name, size)`, comprehensions, name tables) and from the simple
           module-level assignments of sem.py itself
  control  an `if` on a non-constant test forks (same test text -> same outcome along a path, until a name of the test is
           rebound); loops over known lists are unrolled, other loops run their body once; at most MAX_PATHS paths per function,
           beyond which the function is left undecided
  calls    module-level helpers are entered (depth <= 2) for their return value only

A report is made only when BOTH widths are known constants and differ - on some syntactic path of the function.  Unknown widths,
unknown calls and undecided functions never produce a report.
"""
import ast
import re

from .astutil import norm, dotted, walk_local

MAX_PATHS = 192
EXPR_CLASSES = ("ExprInt", "ExprId", "ExprMem", "ExprOp", "ExprCond", "ExprCompose", "ExprSlice", "ExprLoc", "ExprAssign", "ExprAff")
ONE_BIT_OPS = set(["==", "<u", "<s", "<=u", "<=s", "parity", "FLAG_EQ", "FLAG_EQ_AND", "FLAG_EQ_CMP", "FLAG_SIGN_SUB", "FLAG_SIGN_ADD",
                   "FLAG_ADD_CF", "FLAG_ADD_OF", "FLAG_SUB_CF", "FLAG_SUB_OF", "FLAG_ADDWC_CF", "FLAG_ADDWC_OF", "FLAG_SUBWC_CF",
                   "FLAG_SUBWC_OF", "FLAG_EQ_ADDWC", "FLAG_EQ_SUBWC", "FLAG_SIGN_ADDWC", "FLAG_SIGN_SUBWC"])
MIXED_OK = set(["segm", "FLAG_EQ_ADDWC", "FLAG_EQ_SUBWC", "FLAG_SIGN_ADDWC", "FLAG_SIGN_SUBWC", "FLAG_ADDWC_CF", "FLAG_ADDWC_OF",
                "FLAG_SUBWC_CF", "FLAG_SUBWC_OF"])


class V(object):
    __slots__ = ("k", "v")

    def __init__(self, k, v=None):
        self.k, self.v = k, v

    def __repr__(self):
        return "%s(%r)" % (self.k, self.v)


U = V("U")


def E(w):
    return V("E", w if isinstance(w, int) and not isinstance(w, bool) else None)


def P(v):
    return V("P", v)


def join(a, b):
    if a is b:
        return a
    if a.k == b.k == "E":
        return a if a.v == b.v else E(None)
    if a.k == b.k == "P" and a.v == b.v and type(a.v) is type(b.v):
        return a
    if a.k == "E" or b.k == "E":
        # an expression on one side, not an expression on the other: keep "maybe an expression of unknown width"
        return U
    return U


class TooManyPaths(Exception):
    pass


class _Return(Exception):
    pass


class ModuleModel(object):
    """Globals visible in a sem.py: the register table of the architecture + simple module-level assignments."""

    def __init__(self, repo, arch):
        self.repo = repo
        self.arch = arch
        self.mod = repo.mod("miasm/arch/%s/sem.py" % arch)
        self.globals = {}
        self._regs()
        self.funcs = dict((q, f) for q, f in self.mod.funcs.items() if "." not in q)
        self._module_assigns()

    def _regs(self):
        from .peval import Interp, FakeExpr, Undetermined
        rel = "miasm/arch/%s/regs.py" % self.arch
        if not self.repo.exists(rel):
            return
        m = self.repo.mod(rel)
        env = {}

        class RI(Interp):
            def ev(self, e, envx):
                if isinstance(e, ast.Call):
                    d = dotted(e.func)
                    if d == "globals":
                        return env
                    if d in ("ExprId", "m2_expr.ExprId", "expr.ExprId") or d in ("gen_reg", "gen_regs"):
                        args = [self.ev(a, envx) for a in e.args]
                        kw = dict((k.arg, self.ev(k.value, envx)) for k in e.keywords)
                        if d.endswith("ExprId"):
                            return FakeExpr("id", args[1] if len(args) > 1 else kw.get("size", 32), name=args[0])
                        if d == "gen_reg":
                            return (FakeExpr("id", args[1] if len(args) > 1 else kw.get("sz", 32), name=args[0]), None)
                        sz = args[2] if len(args) > 2 else kw.get("sz", 32)
                        regs = [FakeExpr("id", sz, name=n) for n in args[0]]
                        for x in regs:
                            args[1][x.name] = x
                        return (regs, [FakeExpr("id", sz, name=n + "_init") for n in args[0]], None)
                    if d == "dict":
                        a = [self.ev(x, envx) for x in e.args]
                        return dict(a[0]) if a else {}
                    if d in ("reg_info", "gen_reg_bs", "set"):
                        return None
                if isinstance(e, ast.Attribute):
                    b = self.ev(e.value, envx)
                    if isinstance(b, FakeExpr):
                        return getattr(b, e.attr)
                return Interp.ev(self, e, envx)
        it = RI()
        for st in m.tree.body:
            if isinstance(st, (ast.Import, ast.ImportFrom, ast.FunctionDef, ast.ClassDef)):
                continue
            try:
                it.run([st], env)
            except Exception:
                continue

        def conv(v, depth=0):
            if isinstance(v, FakeExpr):
                return E(v.size)
            if isinstance(v, (int, str, bool)) or v is None:
                return P(v)
            if isinstance(v, (list, tuple)) and depth < 3 and len(v) <= 1024:
                return V("L", [conv(x, depth + 1) for x in v])
            if isinstance(v, dict) and depth < 2 and len(v) <= 2048 and all(isinstance(k, (str, int)) for k in v):
                return V("D", dict((k, conv(x, depth + 1)) for k, x in v.items()))
            return U
        for k, v in env.items():
            self.globals[k] = conv(v)

    def _module_assigns(self):
        ev = Evaluator(self, None, quiet=True)
        for st in self.mod.tree.body:
            if isinstance(st, ast.Assign) and len(st.targets) == 1 and isinstance(st.targets[0], ast.Name):
                try:
                    v = ev.ev(st.value, {})
                except (TooManyPaths, RecursionError):
                    v = U
                if st.targets[0].id not in self.globals or self.globals[st.targets[0].id].k == "U":
                    self.globals[st.targets[0].id] = v


class Evaluator(object):
    def __init__(self, mm, fn, quiet=False, depth=0):
        self.mm = mm
        self.fn = fn
        self.quiet = quiet
        self.depth = depth
        self.reports = []       # (node, text, wa, wb, what)
        self.paths = 0
        self.returns = []
        self.dsl = False
        self.params = set()

    # ------------------------------------------------------------------ reporting
    def mismatch(self, node, what, a, b):
        if self.quiet:
            return
        if a.k == "E" and b.k == "E" and a.v is not None and b.v is not None and a.v != b.v:
            self.reports.append((node, norm(node)[:80], a.v, b.v, what))

    # ------------------------------------------------------------------ expressions
    def asexpr(self, v):
        return v if v.k == "E" else (E(None) if v.k == "U" else v)

    def ev(self, e, env):
        if isinstance(e, ast.Constant):
            return P(e.value)
        if isinstance(e, ast.Name):
            if e.id in env:
                return env[e.id]
            if e.id in self.mm.globals:
                return self.mm.globals[e.id]
            if e.id in EXPR_CLASSES:
                return V("C", e.id)
            if e.id in ("True", "False", "None"):
                return P({"True": True, "False": False, "None": None}[e.id])
            if self.dsl:
                mi = re.match(r"^i(\d+)$", e.id)
                if mi:
                    return V("DSLINT", int(mi.group(1)))
                mm_ = re.match(r"^mem(\d+)$", e.id)
                if mm_:
                    return V("DSLMEM", int(mm_.group(1)))
            if e.id in self.mm.funcs:
                return V("F", self.mm.funcs[e.id])
            return U
        if isinstance(e, ast.Attribute):
            if e.attr in EXPR_CLASSES:
                return V("C", e.attr)
            if e.attr.startswith("TOK_"):
                return V("TOK", e.attr)
            b = self.ev(e.value, env)
            if b.k == "E":
                if e.attr == "size":
                    return P(b.v) if b.v is not None else U
                if e.attr in ("ptr", "arg", "cond", "src1", "src2"):
                    return E(None)
                if e.attr in ("zeroExtend", "signExtend", "msb", "copy", "replace_expr", "is_int", "is_id", "is_mem", "is_op"):
                    return V("M", (b, e.attr))
                return U
            if e.attr == "IRDst" or e.attr in ("pc", "sp"):
                return E(None)
            if b.k == "D" and e.attr in ("get",):
                return V("M", (b, "get"))
            if b.k == "L" and e.attr in ("append", "extend"):
                return V("M", (b, e.attr))
            return U
        if isinstance(e, ast.Call):
            return self.call(e, env)
        if isinstance(e, ast.BinOp):
            l, r = self.ev(e.left, env), self.ev(e.right, env)
            if l.k == "E" or r.k == "E":
                if l.k == "E" and r.k == "E":
                    self.mismatch(e, "operands of `%s`" % type(e.op).__name__, l, r)
                    return E(l.v if l.v is not None else r.v)
                known = l if l.k == "E" else r
                return E(known.v)
            if l.k == "P" and r.k == "P":
                try:
                    import operator as op
                    f = {ast.Add: op.add, ast.Sub: op.sub, ast.Mult: op.mul, ast.FloorDiv: op.floordiv, ast.Mod: op.mod, ast.LShift: op.lshift,
                         ast.RShift: op.rshift, ast.BitAnd: op.and_, ast.BitOr: op.or_, ast.BitXor: op.xor}.get(type(e.op))
                    if f is not None and not (isinstance(l.v, int) and isinstance(r.v, int) and isinstance(e.op, (ast.LShift, ast.Pow)) and abs(r.v) > 4096):
                        return P(f(l.v, r.v))
                except Exception:
                    return U
                return U
            # strings known by their end
            if isinstance(e.op, ast.Add):
                suf = self._suffixes(r)
                if suf is not None and (l.k in ("U", "S", "ONE") or (l.k == "P" and isinstance(l.v, str))):
                    if l.k == "P":
                        return V("ONE", [P(l.v + s) for s in suf]) if len(suf) <= 16 else U
                    return V("S", sorted(set(suf)))
            return U
        if isinstance(e, ast.UnaryOp):
            v = self.ev(e.operand, env)
            if v.k == "E":
                return E(v.v)
            if v.k == "P" and isinstance(e.op, ast.Not):
                return P(not v.v)
            if v.k == "P" and isinstance(v.v, int) and isinstance(e.op, ast.USub):
                return P(-v.v)
            if v.k == "P" and isinstance(v.v, int) and isinstance(e.op, ast.Invert):
                return P(~v.v)
            return U
        if isinstance(e, ast.IfExp):
            if self.dsl:
                self.ev(e.test, env)
                a, b = self.ev(e.body, env), self.ev(e.orelse, env)
                if a.k == "E" and b.k == "E":
                    self.mismatch(e, "the two sources of a conditional", a, b)
                    return E(a.v if a.v is not None else b.v)
                return E(None)
            t = self.ev(e.test, env)
            if t.k == "P":
                return self.ev(e.body if t.v else e.orelse, env)
            return join(self.ev(e.body, env), self.ev(e.orelse, env))
        if isinstance(e, ast.Subscript):
            b = self.ev(e.value, env)
            if b.k == "DSLMEM":
                self.ev(e.slice, env)
                return E(b.v)
            if isinstance(e.slice, ast.Slice):
                lo = self.ev(e.slice.lower, env) if e.slice.lower is not None else P(0)
                hi = self.ev(e.slice.upper, env) if e.slice.upper is not None else (P(b.v) if b.k == "E" and b.v is not None else U)
                if b.k == "E":
                    if lo.k == "P" and hi.k == "P" and isinstance(lo.v, int) and isinstance(hi.v, int) and lo.v >= 0 and hi.v >= 0:
                        return E(hi.v - lo.v) if hi.v > lo.v else E(None)
                    return E(None)
                if b.k == "L" and lo.k == "P" and hi.k in ("P", "U"):
                    try:
                        return V("L", b.v[slice(lo.v, hi.v if hi.k == "P" else None)])
                    except Exception:
                        return U
                return U
            i = self.ev(e.slice, env)
            if b.k == "L":
                if i.k == "P" and isinstance(i.v, int) and -len(b.v) <= i.v < len(b.v):
                    return b.v[i.v]
                return V("ONE", list(b.v)) if 0 < len(b.v) <= 16 else U
            if b.k == "D":
                return self._dict_lookup(b, i)
            return U
        if isinstance(e, (ast.Tuple, ast.List)):
            return V("L", [self.ev(x, env) for x in e.elts])
        if isinstance(e, ast.Set) and self.dsl:
            vals = [self.ev(x, env) for x in e.elts]
            if all(v.k == "E" and v.v is not None for v in vals):
                return E(sum(v.v for v in vals))
            return E(None)
        if isinstance(e, ast.Dict):
            keys = [self.ev(k, env) if k is not None else U for k in e.keys]
            if all(k.k == "P" and isinstance(k.v, (str, int)) for k in keys):
                return V("D", dict((k.v, self.ev(v, env)) for k, v in zip(keys, e.values)))
            for v in e.values:
                self.ev(v, env)
            return U
        if isinstance(e, (ast.Compare, ast.BoolOp)):
            vals = []
            for x in ([e.left] + e.comparators) if isinstance(e, ast.Compare) else e.values:
                vals.append(self.ev(x, env))
            if isinstance(e, ast.Compare) and len(e.ops) == 1 and all(v.k == "P" for v in vals):
                import operator as op
                f = {ast.Eq: op.eq, ast.NotEq: op.ne, ast.Lt: op.lt, ast.LtE: op.le, ast.Gt: op.gt, ast.GtE: op.ge,
                     ast.In: lambda a, b: a in b, ast.NotIn: lambda a, b: a not in b, ast.Is: lambda a, b: a is b, ast.IsNot: lambda a, b: a is not b}.get(type(e.ops[0]))
                try:
                    return P(f(vals[0].v, vals[1].v))
                except Exception:
                    return U
            return U
        if isinstance(e, (ast.ListComp, ast.GeneratorExp, ast.JoinedStr, ast.Lambda, ast.DictComp, ast.SetComp, ast.Starred)):
            return U
        return U

    def _suffixes(self, v):
        if v.k == "P" and isinstance(v.v, str):
            return [v.v]
        if v.k == "ONE" and all(x.k == "P" and isinstance(x.v, str) for x in v.v):
            return [x.v for x in v.v]
        if v.k == "S":
            return list(v.v)
        return None

    def _dict_lookup(self, d, i):
        if i.k == "P" and i.v in d.v:
            return d.v[i.v]
        cands = None
        if i.k == "ONE" and all(x.k == "P" for x in i.v):
            cands = [d.v[x.v] for x in i.v if x.v in d.v]
        elif i.k == "S":
            cands = [v for k, v in d.v.items() if isinstance(k, str) and any(k.endswith(s) for s in i.v)]
        if cands:
            out = cands[0]
            for c in cands[1:]:
                out = join(out, c)
            return out
        vals = list(d.v.values())
        if vals and all(v.k == "E" for v in vals):
            ws = set(v.v for v in vals)
            return E(ws.pop()) if len(ws) == 1 else E(None)
        return U

    def call(self, e, env):
        f = self.ev(e.func, env)
        args = []
        for a in e.args:
            if isinstance(a, ast.Starred):
                sv = self.ev(a.value, env)
                if sv.k == "L":
                    args.extend(sv.v)
                else:
                    args.append(V("STAR"))
            else:
                args.append(self.ev(a, env))
        kw = dict((k.arg, self.ev(k.value, env)) for k in e.keywords if k.arg)
        # 'op'(a, b) in the DSL
        if self.dsl and isinstance(e.func, ast.Constant) and isinstance(e.func.value, str):
            return self.build_op(e, P(e.func.value), args)
        if self.dsl and isinstance(e.func, ast.BinOp) and isinstance(e.func.op, ast.Mod):
            return self.build_op(e, U, args)
        if f.k == "DSLINT":
            return E(f.v)
        if f.k == "C":
            c = f.v
            if any(a.k == "STAR" for a in args):
                return E(None)
            if c == "ExprInt":
                s = args[1] if len(args) > 1 else kw.get("size", U)
                return E(s.v if s.k == "P" else None)
            if c == "ExprId":
                s = args[1] if len(args) > 1 else kw.get("size", U)
                return E(s.v if s.k == "P" else None)
            if c == "ExprLoc":
                s = args[1] if len(args) > 1 else kw.get("size", U)
                return E(s.v if s.k == "P" else None)
            if c == "ExprMem":
                s = args[1] if len(args) > 1 else kw.get("size", U)
                return E(s.v if s.k == "P" else None)
            if c == "ExprSlice" and len(args) == 3:
                if args[1].k == "P" and args[2].k == "P" and isinstance(args[1].v, int) and isinstance(args[2].v, int):
                    return E(args[2].v - args[1].v)
                return E(None)
            if c == "ExprCompose":
                if args and all(a.k == "E" and a.v is not None for a in args):
                    return E(sum(a.v for a in args))
                return E(None)
            if c == "ExprCond" and len(args) == 3:
                a, b = self.asexpr(args[1]), self.asexpr(args[2])
                if a.k == "E" and b.k == "E":
                    self.mismatch(e, "the two sources of ExprCond", a, b)
                    return E(a.v if a.v is not None else b.v)
                return E(None)
            if c in ("ExprAssign", "ExprAff") and len(args) == 2:
                a, b = self.asexpr(args[0]), self.asexpr(args[1])
                if a.k == "E" and b.k == "E":
                    self.mismatch(e, "destination and source of an assignment", a, b)
                return V("A")
            if c == "ExprOp" and args:
                return self.build_op(e, args[0], args[1:])
            return E(None)
        if f.k == "M":
            recv, name = f.v
            if name in ("zeroExtend", "signExtend"):
                return E(args[0].v) if args and args[0].k == "P" else E(None)
            if name == "msb":
                return E(1)
            if name in ("copy", "replace_expr"):
                return E(recv.v)
            if name == "get" and recv.k == "D" and args:
                return self._dict_lookup(recv, args[0])
            return U
        if f.k == "F" and self.depth < 2:
            return self.enter(f.v, args)
        return U

    def build_op(self, node, op, args):
        args = [self.asexpr(a) for a in args]
        es = [a for a in args if a.k == "E"]
        opn = op.v if op.k == "P" and isinstance(op.v, str) else None
        if op.k == "TOK":
            opn = {"TOK_EQUAL": "==", "TOK_INF_SIGNED": "<s", "TOK_INF_UNSIGNED": "<u", "TOK_INF_EQUAL_SIGNED": "<=s", "TOK_INF_EQUAL_UNSIGNED": "<=u"}.get(op.v)
        if opn is None or opn not in MIXED_OK:
            known = [a for a in es if a.v is not None]
            for a in known[1:]:
                if opn is not None or op.k == "TOK":
                    self.mismatch(node, "arguments of ExprOp(%r)" % (opn or op.v), known[0], a)
        if opn is not None:
            if opn in ONE_BIT_OPS:
                return E(1)
            m = re.match(r"^(zeroExt|signExt)_(\d+)$", opn)
            if m:
                return E(int(m.group(2)))
            if opn.startswith(("fp_to_sint", "fpconvert_fp")) or opn.startswith(("sint_to_fp", "fpround", "FLAG_", "CC_", "fcom", "fxam", "ucomis", "access_segment", "load_segment", "bcdadd")):
                return E(None)
        known = [a for a in es if a.v is not None]
        return E(known[0].v if known and opn is not None else None)

    def enter(self, fdef, args):
        sub = Evaluator(self.mm, fdef, quiet=True, depth=self.depth + 1)
        try:
            sub.run_function(args)
        except (TooManyPaths, RecursionError):
            return U
        out = None
        for r in sub.returns:
            out = r if out is None else join(out, r)
        return out if out is not None else P(None)

    # ------------------------------------------------------------------ statements
    def run_function(self, args=None):
        fn = self.fn
        self.dsl = any(norm(d) in ("sbuild.parse", "sb.parse") for d in fn.decorator_list)
        params = [a.arg for a in fn.args.args]
        self.params = set(params)
        env = {}
        for i, p in enumerate(params):
            if args is not None and i < len(args):
                env[p] = args[i]
            elif self.dsl:
                env[p] = E(None)
            else:
                env[p] = U
        if self.dsl:
            env.setdefault("ir", U)
            env.setdefault("instr", U)
        if fn.args.vararg is not None:
            env[fn.args.vararg.arg] = U
        self.exec_block(list(fn.body), env, {})

    def exec_block(self, stmts, env, decided):
        """Runs stmts on one path; forks recurse.  Returns normally at the end of the path."""
        for idx, st in enumerate(stmts):
            rest = stmts[idx + 1:]
            if isinstance(st, ast.If):
                t = self.ev(st.test, env)
                key = norm(st.test)
                if t.k == "P":
                    outcome = [bool(t.v)]
                elif key in decided:
                    outcome = [decided[key]]
                else:
                    outcome = [True, False]
                for oc in outcome:
                    if len(outcome) == 2:
                        self.paths += 1
                        if self.paths > MAX_PATHS:
                            raise TooManyPaths()
                    d2 = dict(decided)
                    if t.k != "P":
                        d2[key] = oc
                    self.exec_block(list(st.body if oc else st.orelse) + rest, dict(env) if len(outcome) == 2 else env, d2)
                return
            if isinstance(st, ast.Return):
                self.returns.append(self.ev(st.value, env) if st.value is not None else P(None))
                return
            if isinstance(st, ast.Raise):
                return
            self.exec_simple(st, env, decided)
        # fell off the end
        if self.fn is not None and stmts is not None:
            pass

    def _kill(self, names, decided):
        for k in list(decided):
            if any(re.search(r"\b%s\b" % re.escape(n), k) for n in names):
                del decided[k]

    def assign(self, t, v, env, decided):
        if isinstance(t, ast.Name):
            if self.dsl and (t.id in self.params or t.id in self.mm.globals) and t.id not in ("ir", "instr"):
                dst = env.get(t.id, self.mm.globals.get(t.id, U))
                a, b = self.asexpr(dst), self.asexpr(v)
                if a.k == "E" and b.k == "E":
                    self.mismatch(t, "destination `%s` and source of an IR assignment" % t.id, a, b)
                return
            env[t.id] = v
            self._kill([t.id], decided)
        elif isinstance(t, (ast.Tuple, ast.List)):
            if v.k == "L" and len(v.v) == len(t.elts):
                for tt, vv in zip(t.elts, v.v):
                    self.assign(tt, vv, env, decided)
            else:
                for tt in t.elts:
                    self.assign(tt, U, env, decided)
        elif isinstance(t, ast.Attribute) and self.dsl and norm(t) == "ir.IRDst":
            return
        elif isinstance(t, ast.Subscript):
            if self.dsl:
                dst = self.ev(t, env)
                a, b = self.asexpr(dst), self.asexpr(v)
                if a.k == "E" and b.k == "E":
                    self.mismatch(t, "destination and source of an IR assignment", a, b)

    def exec_simple(self, st, env, decided):
        if isinstance(st, ast.Assign):
            v = self.ev(st.value, env)
            for t in st.targets:
                self.assign(t, v, env, decided)
        elif isinstance(st, ast.AugAssign):
            v = self.ev(ast.BinOp(left=st.target, op=st.op, right=st.value), env) if isinstance(st.target, ast.Name) else U
            if isinstance(st.target, ast.Name):
                cur = env.get(st.target.id)
                if cur is not None and cur.k == "L":
                    self.ev(st.value, env)
                    env[st.target.id] = U
                else:
                    env[st.target.id] = v
                self._kill([st.target.id], decided)
            else:
                self.ev(st.value, env)
        elif isinstance(st, ast.Expr):
            self.ev(st.value, env)
        elif isinstance(st, ast.For):
            it = self.ev(st.iter, env)
            if it.k == "L" and len(it.v) <= 8:
                for x in it.v:
                    self.assign(st.target, x, env, decided)
                    self.exec_block(list(st.body), env, decided)
            else:
                self.assign(st.target, U, env, decided)
                self.exec_block(list(st.body), env, decided)
            names = [n.id for n in ast.walk(st.target) if isinstance(n, ast.Name)]
            self._kill(names, decided)
        elif isinstance(st, ast.While):
            self.ev(st.test, env)
            self.exec_block(list(st.body), env, decided)
        elif isinstance(st, ast.With):
            self.exec_block(list(st.body), env, decided)
        elif isinstance(st, ast.Try):
            self.exec_block(list(st.body), env, decided)
        elif isinstance(st, (ast.FunctionDef, ast.ClassDef, ast.Import, ast.ImportFrom, ast.Pass, ast.Assert, ast.Global, ast.Delete, ast.Break, ast.Continue)):
            if isinstance(st, ast.Assert):
                pass
        return


def analyse_arch(repo, arch):
    """-> (reports, n_functions, n_undecided).  reports: list of (function name, text, wa, wb, what, node)."""
    mm = ModuleModel(repo, arch)
    reports = []
    undecided = 0
    n = 0
    for q, fn in sorted(mm.mod.funcs.items()):
        n += 1
        evr = Evaluator(mm, fn)
        try:
            evr.run_function()
        except (TooManyPaths, RecursionError):
            undecided += 1
            continue
        seen = set()
        for (node, text, wa, wb, what) in evr.reports:
            k = (q, text, wa, wb)
            if k in seen:
                continue
            seen.add(k)
            reports.append((q, text, wa, wb, what, node))
    return reports, n, undecided, mm
