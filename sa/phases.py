"""Ordering of abstract events along the CFG of a function (phase-order rules)."""
import ast

from .cfg import CFG, node_calls, node_exprs
from .astutil import dotted, norm, callee_attr, walk_local


def find_events(cfg, preds):
    """preds: name -> predicate(node); returns name -> list of node ids."""
    out = dict((k, []) for k in preds)
    for nd in cfg.nodes:
        for k, p in preds.items():
            try:
                if p(nd):
                    out[k].append(nd.id)
            except Exception:
                pass
    return out


def order_violations(cfg, ev, seq):
    """For the event sequence `seq` (names), report pairs (earlier, later) such that a node of
    `later` can reach a node of `earlier` (i.e. the later phase may run first)."""
    bad = []
    for i, a in enumerate(seq):
        for b in seq[i + 1:]:
            for nb in ev.get(b, []):
                for na in ev.get(a, []):
                    if nb != na and cfg.can_reach(nb, na):
                        bad.append((a, b, na, nb))
    return bad


def calls_method(nd, *names):
    for c in node_calls(nd):
        d = dotted(c.func)
        if d in names or callee_attr(c) in names:
            return True
    return False


def loop_body_cfg(fn, loop_pred):
    """CFG of the body of the first loop in fn satisfying loop_pred (acyclic wrt that loop)."""
    for n in ast.walk(fn):
        if isinstance(n, (ast.For, ast.While)) and loop_pred(n):
            return n, CFG(n.body)
    return None, None
