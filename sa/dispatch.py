"""Extraction of operator dispatch chains (if/elif on `expr.op`) from translator-like functions."""
import ast

from .astutil import norm, dotted, str_elts, walk_local


def _resolve_list(node, mod, cls):
    """String elements of a list expression: literal, module constant, or class attribute (self.X / Cls.X)."""
    s = str_elts(node)
    if s is not None:
        return s
    d = dotted(node)
    if d is None:
        return None
    name = d.split(".")[-1]
    if cls is not None:
        for st in cls.body:
            if isinstance(st, ast.Assign) and any(isinstance(t, ast.Name) and t.id == name for t in st.targets):
                s = str_elts(st.value)
                if s is not None:
                    return s
                if isinstance(st.value, ast.Dict):
                    return str_elts(st.value)
    v = mod.assigns.get(name)
    if v is not None:
        s = str_elts(v)
        if s is not None:
            return s
    return None


def op_branches(fn, mod, cls=None, subject="expr.op", consts=None):
    """All `if` / `elif` statements of fn whose test selects on `subject`.
    Returns list of dict(kind: 'eq'|'in'|'prefix'|'isop', ops: [...], node: If, body: [stmts], guards: [text of enclosing tests])."""
    consts = consts or {}
    out = []
    for n in ast.walk(fn):
        if not isinstance(n, ast.If):
            continue
        sel = _selector(n.test, mod, cls, subject, consts)
        body_ = n.body
        if sel is None:
            # the negated spelling of a selector guarding a bail-out (`if op != X: raise ...` followed by the operator's code): the branch
            # is what runs when the selector holds - the else arm and, when the guarded arm leaves the block, what follows the `if`
            pos = _negated_selector_test(n.test)
            sel = _selector(pos, mod, cls, subject, consts) if pos is not None else None
            if sel is None:
                continue
            body_ = list(n.orelse)
            if n.body and isinstance(n.body[-1], (ast.Return, ast.Raise, ast.Continue, ast.Break)):
                par_ = getattr(n, "_parent", None)
                for fld_ in ("body", "orelse", "finalbody"):
                    sib_ = getattr(par_, fld_, None)
                    if isinstance(sib_, list) and any(n is x for x in sib_):
                        idx_ = [i for i, x in enumerate(sib_) if x is n][0]
                        for s_ in sib_[idx_ + 1:]:
                            if isinstance(s_, ast.If) and (_selector(s_.test, mod, cls, subject, consts) is not None or
                                                           (_negated_selector_test(s_.test) is not None and
                                                            _selector(_negated_selector_test(s_.test), mod, cls, subject, consts) is not None)):
                                break
                            body_.append(s_)
            if not body_:
                continue
        guards = []
        guard_nodes = []        # (test node, polarity under which this branch runs)
        nested = False
        p = getattr(n, "_parent", None)
        ch = n
        while p is not None and p is not fn:
            if isinstance(p, ast.If):
                # only count as guard when we are in its body (an elif chain nests in orelse)
                if any(ch is s for s in p.body):
                    if _selector(p.test, mod, cls, subject, consts) is not None:
                        nested = True
                    guards.append(norm(p.test))
                    guard_nodes.append((p.test, True))
                else:
                    if _selector(p.test, mod, cls, subject, consts) is None:
                        guards.append("not(" + norm(p.test) + ")")
                        guard_nodes.append((p.test, False))
            ch, p = p, getattr(p, "_parent", None)
        if nested:
            continue      # a refinement inside another operator branch, not a branch of its own
        out.append({"kind": sel[0], "ops": sel[1], "node": n, "body": body_, "guards": [g for g in guards if g], "guard_nodes": guard_nodes})
    return out


def _negated_selector_test(test):
    """the positive form of a negated test: not T -> T ; a != b -> a == b ; a not in b -> a in b ; else None"""
    if isinstance(test, ast.UnaryOp) and isinstance(test.op, ast.Not):
        return test.operand
    if isinstance(test, ast.Compare) and len(test.ops) == 1 and isinstance(test.ops[0], (ast.NotEq, ast.NotIn)):
        op = ast.Eq() if isinstance(test.ops[0], ast.NotEq) else ast.In()
        return ast.copy_location(ast.Compare(left=test.left, ops=[op], comparators=test.comparators), test)
    return None


def _selector(test, mod, cls, subject, consts):
    if isinstance(test, ast.Compare) and len(test.ops) == 1 and norm(test.left) == subject:
        op = test.ops[0]
        r = test.comparators[0]
        if isinstance(op, ast.Eq):
            if isinstance(r, ast.Constant) and isinstance(r.value, str):
                return ("eq", [r.value])
            if isinstance(r, ast.Name) and r.id in consts:
                return ("eq", [consts[r.id]])
            d = dotted(r)
            if d and d.split(".")[-1] in consts:
                return ("eq", [consts[d.split(".")[-1]]])
        if isinstance(op, ast.In):
            lst = _resolve_list(r, mod, cls)
            if lst is None and isinstance(r, (ast.List, ast.Tuple)):
                lst = []
                for e in r.elts:
                    if isinstance(e, ast.Constant):
                        lst.append(e.value)
                    else:
                        d = dotted(e)
                        if d and d.split(".")[-1] in consts:
                            lst.append(consts[d.split(".")[-1]])
                        else:
                            return None
            if lst is not None:
                return ("in", lst)
    if isinstance(test, ast.Call) and isinstance(test.func, ast.Attribute) and test.func.attr == "startswith" and norm(test.func.value) == subject and test.args:
        a = test.args[0]
        if isinstance(a, ast.Constant):
            return ("prefix", [a.value])
    if isinstance(test, ast.Call) and isinstance(test.func, ast.Attribute) and test.func.attr == "is_op" and test.args and \
            norm(test.func.value) + ".op" == subject:
        a = test.args[0]
        if isinstance(a, ast.Constant):
            return ("eq", [a.value])
        d = dotted(a)
        if d and d.split(".")[-1] in consts:
            return ("eq", [consts[d.split(".")[-1]]])
    if isinstance(test, ast.BoolOp) and isinstance(test.op, ast.Or):
        ops = []
        kind = None
        for v in test.values:
            s = _selector(v, mod, cls, subject, consts)
            if s is None:
                return None
            kind = s[0]
            ops.extend(s[1])
        return (kind, ops)
    return None


def tok_consts(repo):
    """TOK_* string constants of expression.py (with simple concatenations folded)."""
    from .astutil import const_value
    m = repo.mod("miasm/expression/expression.py")
    env = {}
    for st in m.tree.body:
        if isinstance(st, ast.Assign) and len(st.targets) == 1 and isinstance(st.targets[0], ast.Name) and st.targets[0].id.startswith("TOK_"):
            ok, v = const_value(st.value, env)
            if ok and isinstance(v, str):
                env[st.targets[0].id] = v
    return env


def is_single_operand_branch(b, seq="args"):
    """Does the branch run where `len(<seq>) > 1` is false (any spelling / orientation of that test)?"""
    from .astutil import less_than
    for (t, pol) in b.get("guard_nodes", []):
        for strictness in (True,):
            lt = less_than(t, True)
            if lt is None:
                continue
            lo, hi, strict = lt
            # 1 < len(seq)  |  2 <= len(seq)
            if norm(hi) == "len(%s)" % seq and ((norm(lo) == "1" and strict) or (norm(lo) == "2" and not strict)):
                return pol is False
            # len(seq) < 2 | len(seq) <= 1   (the negated spelling)
            if norm(lo) == "len(%s)" % seq and ((norm(hi) == "2" and strict) or (norm(hi) == "1" and not strict)):
                return pol is True
    return False
