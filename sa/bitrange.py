"""Upper bound on the bit length of non-negative integer expressions (single-definition locals expanded).

   c                      -> c.bit_length()
   x & c, c & x           -> min(bits(x), bits(c))
   x | y, x ^ y           -> max
   x + y                  -> max + 1
   x >> k                 -> max(bits(x) - k, 0)
   x << k                 -> bits(x) + k
   x % c                  -> bits(c - 1)
   name                   -> bits of its unique definition
None = unknown.  dead_shifts(fn) lists right shifts whose result is provably always 0 (e.g. a carry extracted from a value
that was masked to 32 bits first).
"""
import ast

from .astutil import norm, Resolver, walk_body


def bits(e, res, depth=0):
    if depth > 10:
        return None
    if isinstance(e, ast.Constant) and isinstance(e.value, int) and not isinstance(e.value, bool) and e.value >= 0:
        return e.value.bit_length()
    if isinstance(e, ast.Name):
        d = res.unique_def(e.id)
        if d is None or d is e:
            return None
        return bits(d, res, depth + 1)
    if isinstance(e, ast.BinOp):
        l, r = bits(e.left, res, depth + 1), bits(e.right, res, depth + 1)
        if isinstance(e.op, ast.BitAnd):
            vals = [v for v in (l, r) if v is not None]
            return min(vals) if vals else None
        if isinstance(e.op, (ast.BitOr, ast.BitXor)):
            return max(l, r) if l is not None and r is not None else None
        if isinstance(e.op, ast.Add):
            return max(l, r) + 1 if l is not None and r is not None else None
        if isinstance(e.op, ast.RShift) and isinstance(e.right, ast.Constant) and isinstance(e.right.value, int):
            return max(l - e.right.value, 0) if l is not None else None
        if isinstance(e.op, ast.LShift) and isinstance(e.right, ast.Constant) and isinstance(e.right.value, int):
            return l + e.right.value if l is not None else None
        if isinstance(e.op, ast.Mod) and isinstance(e.right, ast.Constant) and isinstance(e.right.value, int) and e.right.value > 0:
            return (e.right.value - 1).bit_length()
    return None


def dead_shifts(fn):
    res = Resolver(fn)
    out = []
    for n in walk_body(fn):
        if isinstance(n, ast.BinOp) and isinstance(n.op, ast.RShift) and isinstance(n.right, ast.Constant) and isinstance(n.right.value, int) and n.right.value > 0:
            b = bits(n.left, res)
            if b is not None and b <= n.right.value and not (isinstance(n.left, ast.Constant)):
                out.append((n, b))
    return out
