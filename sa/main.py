"""Entry point: python -m sa.main <PID> [--tier quick|thorough] [--replay file]"""
import importlib
import json
import os
import sys
import traceback

from .repo import Repo, AnalysisError, VERIF
from .report import Checker


def main(argv):
    if not argv:
        print("usage: check <property id> [--tier quick|thorough]")
        return 2
    pid = argv[0]
    tier = os.environ.get("VERIF_TIER", "quick")
    i = 1
    while i < len(argv):
        if argv[i] == "--tier" and i + 1 < len(argv):
            tier = argv[i + 1]
            i += 2
        elif argv[i] == "--replay" and i + 1 < len(argv):
            with open(argv[i + 1]) as f:
                rp = json.load(f)
            print("replaying %s: re-running rule set of %s (construct %s)" % (argv[i + 1], rp.get("property"), rp.get("construct")))
            pid = rp.get("property", pid)
            i += 2
        else:
            i += 1
    if tier not in ("quick", "thorough"):
        tier = "quick"
    try:
        try:
            mod = importlib.import_module("rules.%s" % pid.lower())
        except ImportError:
            print("ANALYSIS-ERROR property=%s no rule module (property not claimed)" % pid)
            return 2
        repo = Repo()
        ck = Checker(pid, repo, tier)
        if getattr(mod, "PRELOAD_C", None):
            from . import cast
            cast.preload(repo, mod.PRELOAD_C)
        mod.run(ck)
        bad_controls = []
        if tier == "thorough":
            # positive / negative controls: every catalogued variant of this property is regenerated in a scratch copy
            # (outside /repo and /verif) and the quick check must fire / stay silent as catalogued - a rule that matches
            # nothing must not pass vacuously, and a neutral edit must not raise an alarm
            try:
                sys.path.insert(0, VERIF)
                from selftest import run as st
                vs = st.load_variants([pid])
                import concurrent.futures
                with concurrent.futures.ThreadPoolExecutor(max_workers=int(os.environ.get("VERIF_JOBS", "16"))) as ex:
                    for v, status, msg in ex.map(st.run_variant, vs):
                        ck.controls.append({"variant": v["name"], "expect": v["expect"], "rule": v.get("rule"), "result": status})
                        if status != "ok":
                            bad_controls.append("%s (%s): %s" % (v["name"], v["expect"], status))
            except Exception as e:
                bad_controls.append("control runner failed: %r" % (e,))
        rc = ck.finish(mod.LEVEL_TEXT, mod.ASSUMPTIONS)
        if bad_controls:
            for b in bad_controls:
                print("ANALYSIS-ERROR property=%s control not as expected: %s" % (pid, b))
            return rc if rc == 1 else 2
        if tier == "thorough":
            print("%s: %d control variant(s) behaved as catalogued" % (pid, len(ck.controls)))
        return rc
    except AnalysisError as e:
        print("ANALYSIS-ERROR property=%s %s" % (pid, e))
        return 2
    except Exception:
        traceback.print_exc(file=sys.stdout)
        print("ANALYSIS-ERROR property=%s checker raised (see traceback above)" % pid)
        return 2


if __name__ == "__main__":
    sys.exit(main(sys.argv[1:]))
