"""Entry point: python -m sa.main <PID> [--tier quick|thorough] [--replay file]"""
import importlib
import json
import os
import sys
import traceback

from .repo import Repo, AnalysisError, VERIF
from .report import Checker


def main(argv):
    if not argv:
        print("usage: check <property id> [--tier quick|thorough]")
        return 2
    pid = argv[0]
    tier = os.environ.get("VERIF_TIER", "quick")
    i = 1
    while i < len(argv):
        if argv[i] == "--tier" and i + 1 < len(argv):
            tier = argv[i + 1]
            i += 2
        elif argv[i] == "--replay" and i + 1 < len(argv):
            with open(argv[i + 1]) as f:
                rp = json.load(f)
            print("replaying %s: re-running rule set of %s (construct %s)" % (argv[i + 1], rp.get("property"), rp.get("construct")))
            pid = rp.get("property", pid)
            i += 2
        else:
            i += 1
    if tier not in ("quick", "thorough"):
        tier = "quick"
    try:
        try:
            mod = importlib.import_module("rules.%s" % pid.lower())
        except ImportError:
            print("ANALYSIS-ERROR property=%s no rule module (property not claimed)" % pid)
            return 2
        repo = Repo()
        ck = Checker(pid, repo, tier)
        if getattr(mod, "PRELOAD_C", None):
            from . import cast
            cast.preload(repo, mod.PRELOAD_C)
        mod.run(ck)
        return ck.finish(mod.LEVEL_TEXT, mod.ASSUMPTIONS)
    except AnalysisError as e:
        print("ANALYSIS-ERROR property=%s %s" % (pid, e))
        return 2
    except Exception:
        traceback.print_exc(file=sys.stdout)
        print("ANALYSIS-ERROR property=%s checker raised (see traceback above)" % pid)
        return 2


if __name__ == "__main__":
    sys.exit(main(sys.argv[1:]))
