"""Bits / bytes unit inference for integer expressions (flow-insensitive, single-definition locals expanded).

unit(e) in {"bit", "byte", None}:
   X.size (X not `self`)          -> bit      (Expr widths; only used in modules where .size is an Expr attribute)
   bit // 8, bit / 8, bit >> 3    -> byte
   byte * 8, byte << 3            -> bit
   len(x)                         -> byte
   a + b, a - b, max/min          -> the unit both share, None when they differ or are unknown
   name                           -> unit of its unique definition
"""
import ast

from .astutil import norm, dotted


def unit(e, res, depth=0):
    if depth > 8:
        return None
    if isinstance(e, ast.Attribute) and e.attr == "size" and norm(e.value) != "self":
        return "bit"
    if isinstance(e, ast.Name):
        d = res.unique_def(e.id)
        if d is None or d is e:
            return None
        return unit(d, res, depth + 1)
    if isinstance(e, ast.Call) and dotted(e.func) == "len" and len(e.args) == 1:
        return "byte"
    if isinstance(e, ast.Call) and dotted(e.func) in ("int", "max", "min") and e.args:
        us = set(unit(a, res, depth + 1) for a in e.args)
        return us.pop() if len(us) == 1 else None
    if isinstance(e, ast.BinOp):
        l = unit(e.left, res, depth + 1)
        r = e.right
        if isinstance(e.op, (ast.FloorDiv, ast.Div)) and isinstance(r, ast.Constant) and r.value == 8:
            return "byte" if l == "bit" else None
        if isinstance(e.op, ast.RShift) and isinstance(r, ast.Constant) and r.value == 3:
            return "byte" if l == "bit" else None
        if isinstance(e.op, ast.Mult):
            if isinstance(r, ast.Constant) and r.value == 8:
                return "bit" if l == "byte" else None
            if isinstance(e.left, ast.Constant) and e.left.value == 8:
                return "bit" if unit(r, res, depth + 1) == "byte" else None
            return None
        if isinstance(e.op, ast.LShift) and isinstance(r, ast.Constant) and r.value == 3:
            return "bit" if l == "byte" else None
        if isinstance(e.op, (ast.Add, ast.Sub)):
            ru = unit(r, res, depth + 1)
            if l == ru:
                return l
            if l is None and isinstance(e.left, ast.Constant):
                return ru
            if ru is None and isinstance(r, ast.Constant):
                return l
            return None
    return None
