"""Universal path obligations over a statement CFG.

    undischarged(cfg, node_ok, edge_ok=None, start=None, targets=None)

answers: is there a path from `start` (default: entry; a (node id, label) pair means "the successor of that node
along the edge with that label") to one of `targets` (default: the normal exit) that passes no node for which
node_ok(node) holds and takes no edge for which edge_ok(node, label) holds?  Returns a witness path (list of nodes) or
None.  Raise exits are never targets unless listed: an exception is a rejection, not a silent success.
"""


def undischarged(cfg, node_ok, edge_ok=None, start=None, targets=None):
    if targets is None:
        targets = set([cfg.exit.id])
    else:
        targets = set(targets)
    if start is None:
        init = [cfg.entry.id]
    elif isinstance(start, tuple):
        init = [b for (b, l) in cfg.succ[start[0]] if l == start[1]]
    else:
        init = [start]
    prev = {}
    queue = []
    for n in init:
        if n not in prev:
            prev[n] = None
            queue.append(n)
    while queue:
        a = queue.pop(0)
        nd = cfg.nodes[a]
        if a in targets:
            path = []
            while a is not None:
                path.append(cfg.nodes[a])
                a = prev[a]
            return list(reversed(path))
        if node_ok(nd):
            continue
        for (b, label) in cfg.succ[a]:
            if b in prev:
                continue
            if edge_ok is not None and edge_ok(nd, label):
                continue
            prev[b] = a
            queue.append(b)
    return None


def test_edges(cfg, pred):
    """(node id, label) pairs of test nodes for which pred(test ast) holds; label True."""
    return [(n.id, True) for n in cfg.nodes if n.kind == "test" and pred(n.ast)]


def path_text(path, limit=6):
    out = []
    for nd in path:
        if nd.ast is None:
            continue
        try:
            import ast as _a
            out.append("%s@%d" % (_a.unparse(nd.ast).split("\n")[0][:40], nd.lineno))
        except Exception:
            pass
    if len(out) > limit:
        out = out[:limit // 2] + ["..."] + out[-limit // 2:]
    return " -> ".join(out)
