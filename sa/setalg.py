"""A small algebra of set-builder pieces, to state "the set S built here is { f(d) : d in D, C(d) } U ..." whatever the spelling:
comprehension, set(generator), conditional element, accumulation loop (`for d in D: if C: S.add(f(d))`), update / union with a
difference of other sets built the same way.

    pieces_after(stmts, domain) -> {name: [(element text, frozenset(condition texts))]}   (the bound variable is written $d)

Only what the rules need is modelled: one bound variable ranging over `domain` (a name), conditions that are membership tests or
arbitrary texts, sets named by locals.  Anything else makes the name unknown (absent from the result)."""
import ast

from .astutil import norm, clone


def _rename(e, var):
    class T(ast.NodeTransformer):
        def visit_Name(self, n):
            if n.id == var:
                return ast.copy_location(ast.Name(id="$d", ctx=n.ctx), n)
            return n
    return T().visit(clone(e))


def _txt(e, var):
    return norm(_rename(e, var)).replace("'$d'", "$d")


def _neg(c):
    if " not in " in c:
        return c.replace(" not in ", " in ", 1)
    if " in " in c:
        return c.replace(" in ", " not in ", 1)
    if c.startswith("not "):
        return c[4:]
    return "not " + c


def _split_elt(elt, var, conds):
    """conditional element  a if c else b  ->  two pieces"""
    if isinstance(elt, ast.IfExp):
        c = _txt(elt.test, var)
        return _split_elt(elt.body, var, conds + [c]) + _split_elt(elt.orelse, var, conds + [_neg(c)])
    return [(_txt(elt, var), frozenset(conds))]


def _comp_pieces(comp, domain):
    if not isinstance(comp, (ast.SetComp, ast.GeneratorExp, ast.ListComp)) or len(comp.generators) != 1:
        return None
    g = comp.generators[0]
    if not isinstance(g.target, ast.Name) or norm(g.iter) != domain:
        return None
    var = g.target.id
    conds = [_txt(c, var) for c in g.ifs]
    return _split_elt(comp.elt, var, conds)


def _value_pieces(v, domain, sets):
    """pieces of a set-valued expression, or None"""
    if isinstance(v, ast.Call) and isinstance(v.func, ast.Name) and v.func.id in ("set", "frozenset", "list"):
        if not v.args:
            return []
        if isinstance(v.args[0], (ast.List, ast.Tuple, ast.Set)) and not v.args[0].elts:
            return []
        return _value_pieces(v.args[0], domain, sets)
    if isinstance(v, (ast.SetComp, ast.GeneratorExp, ast.ListComp)):
        return _comp_pieces(v, domain)
    if isinstance(v, ast.Name):
        if v.id == domain:
            return [("$d", frozenset())]
        return list(sets[v.id]) if v.id in sets else None
    # D.difference(F) / D - F / D.intersection(F) / D & F
    a = b = op = None
    if isinstance(v, ast.Call) and isinstance(v.func, ast.Attribute) and v.func.attr in ("difference", "intersection", "union") and len(v.args) == 1:
        a, b, op = v.func.value, v.args[0], v.func.attr
    if isinstance(v, ast.BinOp) and isinstance(v.op, (ast.Sub, ast.BitAnd, ast.BitOr)):
        a, b, op = v.left, v.right, {ast.Sub: "difference", ast.BitAnd: "intersection", ast.BitOr: "union"}[type(v.op)]
    if op is not None:
        pa, pb = _value_pieces(a, domain, sets), _value_pieces(b, domain, sets)
        if pa is None or pb is None:
            return None
        if op == "union":
            return pa + pb
        # membership of $d in b: only when b is a plain filter of the domain  { $d : C }
        if not all(e == "$d" for e, _c in pb) or not all(e == "$d" for e, _c in pa) or len(pb) != 1:
            return None
        cb = sorted(pb[0][1])
        if len(cb) > 1:
            return None
        out = []
        for e, c in pa:
            if op == "intersection":
                out.append((e, frozenset(c | set(cb))))
            else:
                out.append((e, frozenset(c | set(_neg(x) for x in cb))) if cb else None)
        return None if any(x is None for x in out) else out
    return None


def _resolve_membership(pieces, sets):
    """a condition `$d in F` / `$d not in F` with F = { $d : C } (one plain filter of the domain) is replaced by C / not C"""
    out = []
    for e, conds in pieces:
        new = set()
        for c in conds:
            rep = None
            for pol, pat in ((True, "$d in "), (False, "$d not in ")):
                if c.startswith(pat):
                    f = c[len(pat):]
                    ps = sets.get(f)
                    if ps is not None and len(ps) == 1 and ps[0][0] == "$d" and len(ps[0][1]) == 1:
                        inner = list(ps[0][1])[0]
                        rep = inner if pol else _neg(inner)
            new.add(rep if rep is not None else c)
        out.append((e, frozenset(new)))
    return out


def pieces_after(stmts, domain):
    sets = {}
    for st in stmts:
        if isinstance(st, ast.Assign) and len(st.targets) == 1 and isinstance(st.targets[0], ast.Name):
            p = _value_pieces(st.value, domain, sets)
            if p is None:
                sets.pop(st.targets[0].id, None)
            else:
                sets[st.targets[0].id] = p
        elif isinstance(st, ast.AugAssign) and isinstance(st.target, ast.Name) and isinstance(st.op, ast.BitOr) and st.target.id in sets:
            p = _value_pieces(st.value, domain, sets)
            if p is None:
                sets.pop(st.target.id, None)
            else:
                sets[st.target.id] = sets[st.target.id] + p
        elif isinstance(st, ast.Expr) and isinstance(st.value, ast.Call) and isinstance(st.value.func, ast.Attribute) and \
                isinstance(st.value.func.value, ast.Name) and st.value.func.value.id in sets and st.value.func.attr in ("update", "extend") and len(st.value.args) == 1:
            p = _value_pieces(st.value.args[0], domain, sets)
            name = st.value.func.value.id
            if p is None:
                sets.pop(name, None)
            else:
                sets[name] = sets[name] + p
        elif isinstance(st, ast.For) and isinstance(st.target, ast.Name) and norm(st.iter) == domain and not st.orelse:
            var = st.target.id

            def walk(body, conds):
                for b in body:
                    if isinstance(b, ast.If):
                        c = _txt(b.test, var)
                        walk(b.body, conds + [c])
                        walk(b.orelse, conds + [_neg(c)])
                    elif isinstance(b, ast.Expr) and isinstance(b.value, ast.Call) and isinstance(b.value.func, ast.Attribute) and \
                            isinstance(b.value.func.value, ast.Name) and b.value.func.attr in ("add", "append") and len(b.value.args) == 1:
                        name = b.value.func.value.id
                        if name in sets:
                            sets[name] = sets[name] + [(_txt(b.value.args[0], var), frozenset(conds))]
                    elif isinstance(b, (ast.Continue, ast.Pass)):
                        continue
                    else:
                        for n in ast.walk(b):
                            if isinstance(n, ast.Name) and n.id in sets and isinstance(n.ctx, ast.Store):
                                sets.pop(n.id, None)
            walk(st.body, [])
    return dict((k, _resolve_membership(v, sets)) for k, v in sets.items())
