"""Probe / commit key agreement for dictionary-like tables.

A function that tests `K in self.T` (or reads self.T[K] / self.T.get(K)) and later stores `self.T[K] = v` must use the same
value of K at both places.  If EVERY path from the probe to the store rebinds a name K is made of (K canonicalised, stripped,
extended ... in between), the table is probed with one key and filled under another: the entry is never found again and is
re-created on every call.

    mismatches(fn) -> list of dict(table, key, probe node, store node, rebinding node)
"""
import ast

from .astutil import norm, walk_local
from .cfg import CFG, node_exprs
from .facts import killed_names
from .pathob import undischarged


def _table_of(e):
    """text of a table expression we follow: self.X / self.X[...] / a plain name"""
    t = norm(e)
    if t.startswith("self.") or isinstance(e, ast.Name):
        return t
    return None


def _probes_and_stores(cfg):
    probes, stores = [], []
    for nd in cfg.nodes:
        if nd.ast is None:
            continue
        for e in node_exprs(nd):
            for x in walk_local(e):
                if isinstance(x, ast.Compare) and len(x.ops) == 1 and isinstance(x.ops[0], (ast.In, ast.NotIn)):
                    tab = _table_of(x.comparators[0])
                    if tab:
                        probes.append((nd, tab, x.left))
                if isinstance(x, ast.Call) and isinstance(x.func, ast.Attribute) and x.func.attr == "get" and x.args:
                    tab = _table_of(x.func.value)
                    if tab:
                        probes.append((nd, tab, x.args[0]))
        if nd.kind == "stmt" and isinstance(nd.ast, ast.Assign):
            for t in nd.ast.targets:
                if isinstance(t, ast.Subscript) and not isinstance(t.slice, ast.Slice):
                    tab = _table_of(t.value)
                    if tab:
                        stores.append((nd, tab, t.slice))
    return probes, stores


def mismatches(fn):
    cfg = CFG(fn)
    probes, stores = _probes_and_stores(cfg)
    out = []
    for (pn, ptab, pkey) in probes:
        names = set(n.id for n in ast.walk(pkey) if isinstance(n, ast.Name))
        if not names:
            continue
        same_probes = set(n2.id for (n2, t2, k2) in probes if t2 == ptab and norm(k2) == norm(pkey))
        for (sn, stab, skey) in stores:
            if stab != ptab or norm(skey) != norm(pkey) or sn.id == pn.id:
                continue
            if not cfg.can_reach(pn.id, sn.id):
                continue
            # a rebinding of the key (assignment, not a loop header) reachable from the probe and reaching the store with no fresh
            # probe of the same table in between
            for rb in cfg.nodes:
                if rb.kind != "stmt" or not isinstance(rb.ast, (ast.Assign, ast.AugAssign)) or not (killed_names(rb) & names):
                    continue
                if rb.id in (pn.id, sn.id):
                    continue
                if not cfg.can_reach(pn.id, rb.id, avoid=lambda n3: n3.id in same_probes or n3.kind in ('for', 'loop')):
                    continue
                if not cfg.can_reach(rb.id, sn.id, avoid=lambda n3: n3.id in same_probes or n3.kind in ('for', 'loop')):
                    continue
                out.append({"table": ptab, "key": norm(pkey), "probe": pn, "store": sn, "rebind": rb})
                break
    return out
