"""Pre-normalisation of a function before structural rules look at it (a clone is returned; the original tree is untouched).

 1. container aliases: a local bound once to an access path rooted at self / a parameter (`tab = self.lib_imp2ad[libad]`) and used
    only as a container (subscripted, `in` right operand, method receiver, iterated) is replaced by that path everywhere, as long
    as the names the path is made of are not rebound in the function.  `tab[k] = v` becomes `self.lib_imp2ad[libad][k] = v`.
 1b. value aliases of pure access paths: a local bound once to an attribute path without subscripts or calls (`irdst = ircfg.IRDst`,
    `off = instr.offset`) whose root is not rebound and which is never stored to in the function is replaced by the path.
 2. read-modify-write: `T = X + c` / `T = c + X` where X is T itself or a local bound once to T's value (`cur = T; T = cur + c`) becomes
    `T += c` (same for -).
Line numbers and parent links are kept, so reports still point into the real file.
"""
import ast

from .astutil import norm, clone


def _paths_ok(e):
    """an access path: Name | path.attr | path[index-expression without calls]"""
    if isinstance(e, ast.Name):
        return True
    if isinstance(e, ast.Attribute):
        return _paths_ok(e.value)
    if isinstance(e, ast.Subscript) and not isinstance(e.slice, ast.Slice):
        return _paths_ok(e.value) and not any(isinstance(x, ast.Call) for x in ast.walk(e.slice))
    return False


def _anc(n):
    p = getattr(n, "_parent", None)
    while p is not None:
        yield p
        p = getattr(p, "_parent", None)


def _link(tree):
    for node in ast.walk(tree):
        for ch in ast.iter_child_nodes(node):
            ch._parent = node


def normalise_function(fn):
    new = clone(fn)
    _link(new)
    new._parent = getattr(fn, "_parent", None)
    params = set(a.arg for a in new.args.args)
    stores = {}
    for n in ast.walk(new):
        if isinstance(n, ast.Name) and isinstance(n.ctx, (ast.Store, ast.Del)):
            stores.setdefault(n.id, []).append(n)
        if isinstance(n, ast.arg):
            stores.setdefault(n.arg, []).append(n)
    rebound = set(k for k, v in stores.items() if len(v) > 1)
    # ---- 1. container aliases
    aliases = {}
    for st in ast.walk(new):
        if isinstance(st, ast.Assign) and len(st.targets) == 1 and isinstance(st.targets[0], ast.Name):
            name = st.targets[0].id
            if name in rebound or name in params or not _paths_ok(st.value) or isinstance(st.value, ast.Name):
                continue
            root = st.value
            while isinstance(root, (ast.Attribute, ast.Subscript)):
                root = root.value
            if not (isinstance(root, ast.Name) and (root.id == "self" or root.id in params)):
                continue
            used = set(x.id for x in ast.walk(st.value) if isinstance(x, ast.Name))
            if used & rebound:
                continue
            uses = [x for x in ast.walk(new) if isinstance(x, ast.Name) and x.id == name and isinstance(x.ctx, ast.Load)]
            if not uses:
                continue

            def container_use(x):
                p = getattr(x, "_parent", None)
                if isinstance(p, ast.Subscript) and p.value is x:
                    return True
                if isinstance(p, ast.Compare) and x in p.comparators and all(isinstance(o, (ast.In, ast.NotIn)) for o in p.ops):
                    return True
                if isinstance(p, ast.Attribute) and p.value is x and isinstance(getattr(p, "_parent", None), ast.Call) and p._parent.func is p:
                    return True
                if isinstance(p, (ast.For, ast.comprehension)) and p.iter is x:
                    return True
                if isinstance(p, ast.Call) and x in p.args and isinstance(p.func, ast.Name) and p.func.id in ("viewitems", "viewvalues", "viewkeys", "len", "list", "sorted", "iter"):
                    return True
                return False
            if all(container_use(x) for x in uses):
                aliases[name] = (st, st.value)
    # ---- 1b. value aliases of attribute paths (no subscript, no call), never written in this function
    written = set()
    for n in ast.walk(new):
        if isinstance(n, (ast.Assign, ast.AugAssign, ast.Delete)):
            tgs = n.targets if isinstance(n, (ast.Assign, ast.Delete)) else [n.target]
            for t in tgs:
                for x in ast.walk(t):
                    if isinstance(x, (ast.Attribute, ast.Subscript)):
                        written.add(norm(x))
    for st in ast.walk(new):
        if isinstance(st, ast.Assign) and len(st.targets) == 1 and isinstance(st.targets[0], ast.Name):
            name = st.targets[0].id
            v = st.value
            if name in rebound or name in params or name in aliases or not isinstance(v, ast.Attribute):
                continue
            chain = v
            pure = True
            while isinstance(chain, ast.Attribute):
                chain = chain.value
            if not isinstance(chain, ast.Name):
                continue
            root_rebound = chain.id in rebound
            txt = norm(v)
            if any(w == txt or w.startswith(txt + ".") or w.startswith(txt + "[") for w in written):
                continue
            # the alias must be defined before its uses on every path: require the definition to be a statement of the function body
            # itself (not nested in a branch) or of the same block as all its uses
            par = getattr(st, "_parent", None)
            uses = [x for x in ast.walk(new) if isinstance(x, ast.Name) and x.id == name and isinstance(x.ctx, ast.Load)]
            if not uses:
                continue
            if root_rebound:
                # allowed only when definition and uses sit in one statement list with no store to the root in between
                blk = None
                for fld in ("body", "orelse", "finalbody"):
                    b = getattr(par, fld, None)
                    if isinstance(b, list) and st in b:
                        blk = b
                if blk is None:
                    continue
                tops = []
                okb = True
                for x in uses:
                    t = x
                    while getattr(t, "_parent", None) is not par and getattr(t, "_parent", None) is not None:
                        t = t._parent
                    if t not in blk or blk.index(t) <= blk.index(st):
                        okb = False
                        break
                    tops.append(blk.index(t))
                if not okb:
                    continue
                span = blk[blk.index(st) + 1:max(tops) + 1]
                if any(isinstance(y, ast.Name) and y.id == chain.id and isinstance(y.ctx, (ast.Store, ast.Del)) for z in span for y in ast.walk(z)):
                    continue
                aliases[name] = (st, v)
            elif par is new or all(any(a is par for a in _anc(x)) for x in uses):
                aliases[name] = (st, v)
    if aliases:
        class T(ast.NodeTransformer):
            def visit_Name(self, n):
                if isinstance(n.ctx, ast.Load) and n.id in aliases:
                    r = clone(aliases[n.id][1])
                    return ast.copy_location(r, n)
                return n
        drop = set(id(v[0]) for v in aliases.values())

        class D(ast.NodeTransformer):
            def generic_visit(self, node):
                super(D, self).generic_visit(node)
                for fld in ("body", "orelse", "finalbody"):
                    b = getattr(node, fld, None)
                    if isinstance(b, list) and b and isinstance(b[0], ast.stmt):
                        nb = [s for s in b if id(s) not in drop]
                        setattr(node, fld, nb or [ast.copy_location(ast.Pass(), b[0])])
                return node
        new = D().visit(new)
        new = T().visit(new)
        ast.fix_missing_locations(new)
        _link(new)
    # ---- 2. read-modify-write
    single = {}
    for st in ast.walk(new):
        if isinstance(st, ast.Assign) and len(st.targets) == 1 and isinstance(st.targets[0], ast.Name) and st.targets[0].id not in rebound:
            single[st.targets[0].id] = st.value

    class A(ast.NodeTransformer):
        def visit_Assign(self, st):
            val = st.value
            # the new value may have been computed into a once-bound temporary first (`nxt = cur + c; ...; T = nxt`)
            if isinstance(val, ast.Name) and val.id in single and isinstance(single[val.id], ast.BinOp):
                val = single[val.id]
            if len(st.targets) == 1 and isinstance(st.targets[0], (ast.Subscript, ast.Attribute)) and isinstance(val, ast.BinOp) \
                    and isinstance(val.op, (ast.Add, ast.Sub)):
                t = norm(st.targets[0])
                l, r = val.left, val.right

                def is_self(x):
                    if norm(x) == t:
                        return True
                    return isinstance(x, ast.Name) and x.id in single and norm(single[x.id]) == t
                if is_self(l) and not is_self(r):
                    return ast.copy_location(ast.AugAssign(target=st.targets[0], op=val.op, value=r), st)
                if isinstance(val.op, ast.Add) and is_self(r) and not is_self(l):
                    return ast.copy_location(ast.AugAssign(target=st.targets[0], op=val.op, value=l), st)
            return st
    new = A().visit(new)
    ast.fix_missing_locations(new)
    _link(new)
    new._parent = getattr(fn, "_parent", None)
    return new


def inline_helpers(fn, methods, max_stmts=8, accept=None):
    """(`accept`: optional predicate on the helper's name, e.g. private helpers only.)
    Clone of `fn` in which calls `self.h(a, ...)` of small straight-line same-class helpers (assignments / expression statements
    followed by one final `return E`, no control flow) are replaced by the helper's body: its statements, parameters substituted
    and locals suffixed, are inserted before the calling statement and the call becomes E.  Only calls sitting in simple statements
    (expression, assignment, augmented assignment, return) of a statement list are expanded, one level deep."""
    new = clone(fn)
    _link(new)
    new._parent = getattr(fn, "_parent", None)
    counter = [0]

    def helper_ok(h):
        body = [s for s in h.body if not (isinstance(s, ast.Expr) and isinstance(s.value, ast.Constant))]
        if not body or len(body) > max_stmts or not isinstance(body[-1], ast.Return) or body[-1].value is None:
            return None
        for s in body[:-1]:
            if not isinstance(s, (ast.Assign, ast.Expr, ast.AugAssign)):
                return None
        if any(isinstance(x, (ast.Yield, ast.YieldFrom, ast.Lambda)) for s in body for x in ast.walk(s)):
            return None
        if h.args.vararg or h.args.kwarg or h.args.kwonlyargs:
            return None
        return body

    def procedure_call(st):
        """`self.h(args)` as a whole statement, h a same-class method without any `return <value>` / yield (a procedure, any control flow,
        at most 3 * max_stmts nodes of statements): the statements of h with parameters substituted and locals suffixed; else None."""
        if not (isinstance(st, ast.Expr) and isinstance(st.value, ast.Call)):
            return None
        c = st.value
        if not (isinstance(c.func, ast.Attribute) and isinstance(c.func.value, ast.Name) and c.func.value.id == "self" and c.func.attr in methods
                and methods[c.func.attr] is not fn and not c.keywords and not any(isinstance(a, ast.Starred) for a in c.args)):
            return None
        if accept is not None and not accept(c.func.attr):
            return None
        h = methods[c.func.attr]
        if h.args.vararg or h.args.kwarg or h.args.kwonlyargs or h.args.defaults:
            return None
        static = any(isinstance(d, ast.Name) and d.id == "staticmethod" for d in h.decorator_list)
        params = [a.arg for a in (h.args.args if static else h.args.args[1:])]
        if len(params) != len(c.args):
            return None
        body = [s_ for s_ in h.body if not (isinstance(s_, ast.Expr) and isinstance(s_.value, ast.Constant))]
        if body and isinstance(body[-1], ast.Return) and body[-1].value is None:
            body = body[:-1]
        nodes = [x for s_ in body for x in ast.walk(s_)]
        if not body or sum(1 for x in nodes if isinstance(x, ast.stmt)) > 3 * max_stmts or \
                any(isinstance(x, (ast.Return, ast.Yield, ast.YieldFrom, ast.Lambda, ast.FunctionDef, ast.Global, ast.Nonlocal)) for x in nodes):
            return None
        # arguments must be simple (names / access paths / constants): they are substituted textually
        if not all(isinstance(a, ast.Constant) or _paths_ok(a) for a in c.args):
            return None
        stored_params = set(x.id for x in nodes if isinstance(x, ast.Name) and isinstance(x.ctx, (ast.Store, ast.Del)) and x.id in params)
        if stored_params:
            return None
        counter[0] += 1
        suf = "_h%d" % counter[0]
        hlocals = set(x.id for x in nodes if isinstance(x, ast.Name) and isinstance(x.ctx, (ast.Store, ast.Del)))
        sub = dict(zip(params, c.args))

        class S(ast.NodeTransformer):
            def visit_Name(self, n):
                if n.id in sub and isinstance(n.ctx, ast.Load):
                    return clone(sub[n.id])
                if n.id in hlocals:
                    return ast.copy_location(ast.Name(id=n.id + suf, ctx=n.ctx), n)
                return n
        res = []
        for s_ in body:
            t_ = S().visit(clone(s_))
            for x in ast.walk(t_):
                if hasattr(x, "lineno"):
                    x.lineno = getattr(st, "lineno", x.lineno)
            res.append(t_)
        return res

    def expand_block(stmts):
        out = []
        for st in stmts:
            for fld in ("body", "orelse", "finalbody"):
                b = getattr(st, fld, None)
                if isinstance(b, list) and b and isinstance(b[0], ast.stmt):
                    setattr(st, fld, expand_block(b))
            for h in getattr(st, "handlers", []) or []:
                h.body = expand_block(h.body)
            proc = procedure_call(st)
            if proc is not None:
                out.extend(proc)
                continue
            if isinstance(st, (ast.Expr, ast.Assign, ast.AugAssign, ast.Return)):
                calls = [c for c in ast.walk(st) if isinstance(c, ast.Call) and isinstance(c.func, ast.Attribute) and isinstance(c.func.value, ast.Name)
                         and c.func.value.id == "self" and c.func.attr in methods and methods[c.func.attr] is not fn and not c.keywords
                         and not any(isinstance(a, ast.Starred) for a in c.args) and (accept is None or accept(c.func.attr))]
                for c in calls[:1]:
                    h = methods[c.func.attr]
                    body = helper_ok(h)
                    static = any(isinstance(d, ast.Name) and d.id == "staticmethod" for d in h.decorator_list)
                    params = [a.arg for a in (h.args.args if static else h.args.args[1:])]
                    if body is None or len(c.args) != len(params):
                        continue
                    # a call inside a comprehension / lambda reads names that are not bound at statement level: the helper can only be
                    # expanded there as ONE expression (its single-assignment temporaries substituted into the returned value)
                    nested = any(isinstance(sc, (ast.ListComp, ast.SetComp, ast.DictComp, ast.GeneratorExp, ast.Lambda)) and any(x is c for x in ast.walk(sc))
                                 for sc in ast.walk(st))
                    if nested and len(body) > 1:
                        env_ = {}
                        okp = True
                        for s_ in body[:-1]:
                            if isinstance(s_, ast.Assign) and len(s_.targets) == 1 and isinstance(s_.targets[0], ast.Name) and s_.targets[0].id not in env_:
                                class E(ast.NodeTransformer):
                                    def visit_Name(self, n):
                                        return clone(env_[n.id]) if (n.id in env_ and isinstance(n.ctx, ast.Load)) else n
                                env_[s_.targets[0].id] = E().visit(clone(s_.value))
                            else:
                                okp = False
                        if not okp:
                            continue

                        class E2(ast.NodeTransformer):
                            def visit_Name(self, n):
                                return clone(env_[n.id]) if (n.id in env_ and isinstance(n.ctx, ast.Load)) else n
                        body = [ast.Return(value=E2().visit(clone(body[-1].value)))]
                    counter[0] += 1
                    suf = "_h%d" % counter[0]
                    hlocals = set(n.id for s in body for n in ast.walk(s) if isinstance(n, ast.Name) and isinstance(n.ctx, ast.Store))
                    sub = dict(zip(params, c.args))

                    class S(ast.NodeTransformer):
                        def visit_Name(self, n):
                            if n.id in sub and isinstance(n.ctx, ast.Load):
                                return clone(sub[n.id])
                            if n.id in hlocals:
                                return ast.copy_location(ast.Name(id=n.id + suf, ctx=n.ctx), n)
                            return n
                    pre = [ast.copy_location(S().visit(clone(s)), st) for s in body[:-1]]
                    ret = S().visit(clone(body[-1].value))

                    class R(ast.NodeTransformer):
                        def visit_Call(self, n):
                            if n is c:
                                return ast.copy_location(ret, n)
                            return self.generic_visit(n)
                    st = R().visit(st)
                    out.extend(pre)
            out.append(st)
        return out
    new.body = expand_block(new.body)
    ast.fix_missing_locations(new)
    _link(new)
    new._parent = getattr(fn, "_parent", None)
    return new


def _gen_summary(h):
    """A generator helper of the shape  [T = E]* ; for X in ITER: [T = E]* ; yield V   -> (params, prelude, X, ITER, inner, V) or None"""
    body = [s for s in h.body if not (isinstance(s, ast.Expr) and isinstance(s.value, ast.Constant))]
    if not body or not isinstance(body[-1], ast.For) or body[-1].orelse:
        return None
    if h.args.vararg or h.args.kwarg or h.args.kwonlyargs or h.args.defaults:
        return None
    pre = []
    for s in body[:-1]:
        if not (isinstance(s, ast.Assign) and len(s.targets) == 1 and isinstance(s.targets[0], ast.Name)):
            return None
        pre.append((s.targets[0].id, s.value))
    loop = body[-1]
    inner = []
    lb = [s for s in loop.body if not (isinstance(s, ast.Expr) and isinstance(s.value, ast.Constant))]
    if not lb or not (isinstance(lb[-1], ast.Expr) and isinstance(lb[-1].value, ast.Yield) and lb[-1].value.value is not None):
        return None
    for s in lb[:-1]:
        if not (isinstance(s, ast.Assign) and len(s.targets) == 1 and isinstance(s.targets[0], ast.Name)):
            return None
        inner.append((s.targets[0].id, s.value))
    if sum(1 for x in ast.walk(h) if isinstance(x, (ast.Yield, ast.YieldFrom))) != 1:
        return None
    return [a.arg for a in h.args.args], pre, loop.target, loop.iter, inner, lb[-1].value.value


def inline_generators(stmts, helpers):
    """Clone of the statement list in which `for T in h(args)` (comprehension generators and for statements), h a module-level
    generator of the shape accepted by _gen_summary, iterates over h's own sequence instead: the generator's prelude and per-item
    assignments are substituted, T's names are replaced by the components of the yielded value.  Nothing is done when a name of the
    helper would capture a name of the caller, when T's shape and the yielded value's do not match, or when T is stored to."""
    new = [clone(s) for s in stmts]
    caller_names = set(n.id for s in new for n in ast.walk(s) if isinstance(n, ast.Name))

    def subst(e, env):
        class T(ast.NodeTransformer):
            def visit_Name(self, n):
                if isinstance(n.ctx, ast.Load) and n.id in env:
                    return clone(env[n.id])
                return n
        return T().visit(clone(e))

    def plan(call, target):
        if not (isinstance(call, ast.Call) and isinstance(call.func, ast.Name) and call.func.id in helpers and not call.keywords
                and not any(isinstance(a, ast.Starred) for a in call.args)):
            return None
        gs = _gen_summary(helpers[call.func.id])
        if gs is None:
            return None
        params, pre, x, it, inner, v = gs
        if len(params) != len(call.args):
            return None
        xnames = set(n.id for n in ast.walk(x) if isinstance(n, ast.Name))
        if xnames & caller_names:
            return None
        env = dict(zip(params, call.args))
        for name, val in pre:
            env[name] = subst(val, env)
        it2 = subst(it, env)
        for name, val in inner:
            env[name] = subst(val, env)
        v2 = subst(v, env)
        tmap = {}
        if isinstance(target, ast.Name):
            tmap[target.id] = v2
        elif isinstance(target, (ast.Tuple, ast.List)) and isinstance(v2, (ast.Tuple, ast.List)) and len(target.elts) == len(v2.elts) and \
                all(isinstance(e, ast.Name) for e in target.elts):
            for e, w in zip(target.elts, v2.elts):
                tmap[e.id] = w
        else:
            return None
        return clone(x), it2, tmap

    class G(ast.NodeTransformer):
        def _comp(self, node):
            self.generic_visit(node)
            for i, g in enumerate(node.generators):
                p = plan(g.iter, g.target)
                if p is None:
                    continue
                x, it2, tmap = p
                g.target, g.iter = x, it2
                g.ifs = [subst(c, tmap) for c in g.ifs]
                for g2 in node.generators[i + 1:]:
                    g2.iter = subst(g2.iter, tmap)
                    g2.ifs = [subst(c, tmap) for c in g2.ifs]
                if isinstance(node, ast.DictComp):
                    node.key, node.value = subst(node.key, tmap), subst(node.value, tmap)
                else:
                    node.elt = subst(node.elt, tmap)
            return node
        visit_ListComp = visit_SetComp = visit_GeneratorExp = visit_DictComp = _comp

        def visit_For(self, node):
            self.generic_visit(node)
            p = plan(node.iter, node.target)
            if p is None:
                return node
            x, it2, tmap = p
            if any(isinstance(n, ast.Name) and n.id in tmap and isinstance(n.ctx, (ast.Store, ast.Del)) for s in node.body for n in ast.walk(s)):
                return node
            node.target, node.iter = x, it2
            node.body = [subst(s, tmap) for s in node.body]
            return node
    out = [G().visit(s) for s in new]
    for s in out:
        ast.fix_missing_locations(s)
    return out


def _forall_summary(h):
    """A boolean loop helper:  [docstring] for T in IT: if C: return <b> ;  return <not b>    -> (params, T, IT, C, b) or None"""
    body = [s for s in h.body if not (isinstance(s, ast.Expr) and isinstance(s.value, ast.Constant))]
    if len(body) != 2 or not isinstance(body[0], ast.For) or body[0].orelse or not isinstance(body[1], ast.Return):
        return None
    if h.args.vararg or h.args.kwarg or h.args.kwonlyargs or h.args.defaults:
        return None
    loop, last = body
    if len(loop.body) != 1 or not isinstance(loop.body[0], ast.If) or loop.body[0].orelse:
        return None
    inner = loop.body[0]
    if len(inner.body) != 1 or not isinstance(inner.body[0], ast.Return):
        return None
    r_in, r_out = inner.body[0].value, last.value
    if not (isinstance(r_in, ast.Constant) and isinstance(r_out, ast.Constant) and isinstance(r_in.value, bool) and isinstance(r_out.value, bool)
            and r_in.value != r_out.value):
        return None
    return [a.arg for a in h.args.args], loop.target, loop.iter, inner.test, r_in.value


def inline_forall_helpers(fn, helpers):
    """Clone of `fn` in which `if H(args): ...` / `if not H(args): ...` / `if H(args) is False: ...`, H a module-level boolean loop helper
    (for T in IT: if C: return b ; return not b), is replaced by the flag loop it abbreviates:
          flag = not b ; for T in IT: if C: flag = b ; break        if flag: ...
    Parameters are substituted by the call's arguments, the helper's loop names are suffixed (no capture)."""
    new = clone(fn)
    counter = [0]

    def plan(test):
        neg = False
        call = test
        if isinstance(test, ast.UnaryOp) and isinstance(test.op, ast.Not):
            neg, call = True, test.operand
        elif isinstance(test, ast.Compare) and len(test.ops) == 1 and isinstance(test.comparators[0], ast.Constant) and isinstance(test.comparators[0].value, bool) \
                and isinstance(test.ops[0], (ast.Is, ast.Eq, ast.IsNot, ast.NotEq)):
            call = test.left
            neg = (test.comparators[0].value is False) == isinstance(test.ops[0], (ast.Is, ast.Eq))
        if not (isinstance(call, ast.Call) and isinstance(call.func, ast.Name) and call.func.id in helpers and not call.keywords
                and not any(isinstance(a, ast.Starred) for a in call.args)):
            return None
        fs = _forall_summary(helpers[call.func.id])
        if fs is None or len(fs[0]) != len(call.args):
            return None
        return neg, call, fs

    def expand(stmts):
        out = []
        for st in stmts:
            for fld in ("body", "orelse", "finalbody"):
                b = getattr(st, fld, None)
                if isinstance(b, list) and b and isinstance(b[0], ast.stmt):
                    setattr(st, fld, expand(b))
            for hd in getattr(st, "handlers", []) or []:
                hd.body = expand(hd.body)
            p = plan(st.test) if isinstance(st, ast.If) else None
            if p is not None:
                neg, call, (params, tgt, it, cond, b) = p
                counter[0] += 1
                suf = "_q%d" % counter[0]
                flag = "all_ok%s" % suf
                sub = dict(zip(params, call.args))
                hl = set(n.id for n in ast.walk(tgt) if isinstance(n, ast.Name))

                class S(ast.NodeTransformer):
                    def visit_Name(self, n):
                        if n.id in hl:
                            return ast.copy_location(ast.Name(id=n.id + suf, ctx=n.ctx), n)
                        if n.id in sub and isinstance(n.ctx, ast.Load):
                            return clone(sub[n.id])
                        return n

                def mk(node):
                    return ast.copy_location(node, st)
                set_flag = lambda v: mk(ast.Assign(targets=[mk(ast.Name(id=flag, ctx=ast.Store()))], value=mk(ast.Constant(value=v))))
                inner = mk(ast.If(test=S().visit(clone(cond)), body=[set_flag(b), mk(ast.Break())], orelse=[]))
                loop = mk(ast.For(target=S().visit(clone(tgt)), iter=S().visit(clone(it)), body=[inner], orelse=[]))
                out.append(set_flag(not b))
                out.append(loop)
                ftest = mk(ast.Name(id=flag, ctx=ast.Load()))
                st.test = mk(ast.UnaryOp(op=ast.Not(), operand=ftest)) if neg else ftest
                for x in ast.walk(loop):
                    if not hasattr(x, "lineno") and isinstance(x, (ast.expr, ast.stmt)):
                        ast.copy_location(x, st)
            out.append(st)
        return out
    new.body = expand(new.body)
    ast.fix_missing_locations(new)
    _link(new)
    new._parent = getattr(fn, "_parent", None)
    for a in ("_qualname", "_module", "_class"):
        if hasattr(fn, a):
            setattr(new, a, getattr(fn, a))
    return new


def with_private_helpers(mod, qual, max_stmts=8):
    """The method `Class.name` of `mod` with the calls of the class's private helpers (`self._h(...)`, not dunder) inlined: an extracted
    private helper is still part of the method that calls it."""
    cls, _name = qual.rsplit(".", 1)
    return inline_helpers(mod.func(qual), mod.methods(cls), max_stmts=max_stmts, accept=lambda n_: n_.startswith("_") and not n_.startswith("__"))


_OVERRIDDEN = {}


def overridden_private_names(root):
    """Private method names defined in more than one class of the tree under analysis (or raising NotImplementedError): `self._h()`
    may dispatch to another class's definition, so such helpers are never inlined.  One regex scan of miasm/**/*.py per root."""
    import os
    import re
    if root in _OVERRIDDEN:
        return _OVERRIDDEN[root]
    count = {}
    rx = re.compile(r"^[ \t]+def[ \t]+(_[A-Za-z0-9]\w*)[ \t]*\(", re.M)
    base = os.path.join(root, "miasm")
    for d, dirs, files in os.walk(base):
        dirs.sort()
        for f in files:
            if not f.endswith(".py"):
                continue
            try:
                with open(os.path.join(d, f), "rb") as fh:
                    txt = fh.read().decode("utf-8", "replace")
            except OSError:
                continue
            for name in rx.findall(txt):
                if not name.startswith("__"):
                    count[name] = count.get(name, 0) + 1
    _OVERRIDDEN[root] = set(k for k, v in count.items() if v > 1)
    return _OVERRIDDEN[root]


def inline_private_helpers_in_module(tree, max_stmts=8, never=()):
    """Applied when a file is loaded (sa/repo.Module): in every class, the calls `self._h(...)` of the class's own private helpers
    (straight-line value helpers and procedures, see inline_helpers) are expanded in the methods that make them.  The helper methods
    themselves stay in the class.  Returns the number of methods rewritten."""
    n = 0
    def abstract(h):
        return any(isinstance(x, ast.Raise) and x.exc is not None and "NotImplementedError" in ast.dump(x.exc) for x in ast.walk(h))
    priv0 = lambda name: name.startswith("_") and not name.startswith("__") and name not in never
    for cls in [c for c in ast.walk(tree) if isinstance(c, ast.ClassDef)]:
        own = dict((st.name, st) for st in cls.body if isinstance(st, ast.FunctionDef))
        priv = lambda name, own=own: priv0(name) and name in own and not abstract(own[name])
        methods = dict((st.name, st) for st in cls.body if isinstance(st, ast.FunctionDef))
        if not any(priv(k) for k in methods):
            continue
        for i, st in enumerate(cls.body):
            if not isinstance(st, ast.FunctionDef):
                continue
            if not any(isinstance(c, ast.Call) and isinstance(c.func, ast.Attribute) and isinstance(c.func.value, ast.Name) and c.func.value.id == "self"
                       and priv(c.func.attr) and c.func.attr in methods and methods[c.func.attr] is not st for c in ast.walk(st)):
                continue
            before = ast.dump(st)
            new = inline_helpers(st, methods, max_stmts=max_stmts, accept=priv)
            if ast.dump(new) != before:
                cls.body[i] = new
                n += 1
    return n
