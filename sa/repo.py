"""Access to the tree under analysis (source text only, never imported)."""
import ast
import hashlib
import os

ROOT = os.environ.get("VERIF_REPO", "/repo")
VERIF = os.path.dirname(os.path.dirname(os.path.abspath(__file__)))


class AnalysisError(Exception):
    """Anchor vanished / construct not understood / floor not met: exit 2."""


class Module(object):
    def __init__(self, rel, src):
        self.rel = rel
        self.src = src
        import warnings
        with warnings.catch_warnings():
            warnings.simplefilter("ignore")          # the sembuilder DSL ('op'(a, b)) makes CPython warn at parse time
            self.tree = ast.parse(src, filename=rel)
        if os.environ.get("VERIF_NOCANON") != "1":
            from .canonical import canonicalise
            self.tree = canonicalise(self.tree)
            if os.environ.get("VERIF_NOINLINE") != "1":
                from .prenorm import inline_private_helpers_in_module, overridden_private_names
                self.inlined_methods = inline_private_helpers_in_module(self.tree, never=overridden_private_names(ROOT))
            if os.environ.get("VERIF_NOALPHA") != "1":
                from .alpha import align_module
                self.alpha_renamed = align_module(self.tree, rel)
        self.funcs = {}      # qualname -> FunctionDef
        self.classes = {}    # name -> ClassDef
        self.assigns = {}    # module-level name -> value node (last binding)
        self.imports = {}    # alias -> dotted module / module.name
        self._index()

    def _index(self):
        for node in ast.walk(self.tree):
            for ch in ast.iter_child_nodes(node):
                ch._parent = node
        self.tree._parent = None

        def visit(body, prefix, cls):
            for st in body:
                if isinstance(st, (ast.FunctionDef, ast.AsyncFunctionDef)):
                    q = prefix + st.name
                    # keep the last definition, as Python does
                    self.funcs[q] = st
                    st._qualname = q
                    st._module = self
                    st._class = cls
                    visit(st.body, q + ".", None)
                elif isinstance(st, ast.ClassDef):
                    if not prefix:
                        self.classes[st.name] = st
                    st._module = self
                    visit(st.body, prefix + st.name + ".", st)
                elif isinstance(st, (ast.If, ast.Try, ast.With, ast.For, ast.While)):
                    for fld in ("body", "orelse", "finalbody"):
                        visit(getattr(st, fld, []) or [], prefix, cls)
                    for h in getattr(st, "handlers", []) or []:
                        visit(h.body, prefix, cls)
        visit(self.tree.body, "", None)
        for st in self.tree.body:
            if isinstance(st, ast.Assign):
                for t in st.targets:
                    if isinstance(t, ast.Name):
                        self.assigns[t.id] = st.value
            elif isinstance(st, ast.Import):
                for a in st.names:
                    self.imports[a.asname or a.name.split(".")[0]] = a.name if a.asname else a.name.split(".")[0]
            elif isinstance(st, ast.ImportFrom):
                for a in st.names:
                    self.imports[a.asname or a.name] = (st.module or "") + "." + a.name

    def func(self, qual):
        f = self.funcs.get(qual)
        if f is None:
            raise AnalysisError("anchor vanished: function %s in %s" % (qual, self.rel))
        return f

    def cls(self, name):
        c = self.classes.get(name)
        if c is None:
            raise AnalysisError("anchor vanished: class %s in %s" % (name, self.rel))
        return c

    def const(self, name):
        v = self.assigns.get(name)
        if v is None:
            raise AnalysisError("anchor vanished: module constant %s in %s" % (name, self.rel))
        return v

    def methods(self, clsname):
        """name -> FunctionDef for methods defined directly in the class."""
        c = self.cls(clsname)
        return dict((st.name, st) for st in c.body if isinstance(st, ast.FunctionDef))

    def where(self, node):
        return "%s:%d" % (self.rel, getattr(node, "lineno", 0))


class Repo(object):
    def __init__(self, root=None):
        self.root = root or ROOT
        self._mods = {}
        self.consulted = {}

    def abspath(self, rel):
        return os.path.join(self.root, rel)

    def exists(self, rel):
        return os.path.exists(self.abspath(rel))

    def text(self, rel):
        p = self.abspath(rel)
        if not os.path.isfile(p):
            raise AnalysisError("anchor vanished: file %s" % rel)
        with open(p, "rb") as f:
            data = f.read()
        self.consulted[rel] = hashlib.sha256(data).hexdigest()[:16]
        return data.decode("utf-8", "replace")

    def mod(self, rel):
        m = self._mods.get(rel)
        if m is None:
            try:
                m = Module(rel, self.text(rel))
            except SyntaxError as e:
                raise AnalysisError("cannot parse %s: %s" % (rel, e))
            self._mods[rel] = m
        return m

    def pyfiles(self, sub="miasm"):
        out = []
        base = self.abspath(sub)
        for d, dirs, files in os.walk(base):
            dirs.sort()
            for f in sorted(files):
                if f.endswith(".py"):
                    out.append(os.path.relpath(os.path.join(d, f), self.root))
        return out

    # -- class lookup across modules (name based, with import resolution) --
    def find_class(self, mod, name):
        """Resolve a base-class expression name seen in `mod` to (Module, ClassDef)."""
        if name in mod.classes:
            return mod, mod.classes[name]
        tgt = mod.imports.get(name)
        if tgt and tgt.startswith("miasm."):
            parts = tgt.split(".")
            rel = "/".join(parts[:-1]) + ".py"
            if self.exists(rel):
                m2 = self.mod(rel)
                if parts[-1] in m2.classes:
                    return m2, m2.classes[parts[-1]]
        return None, None

    def mro_methods(self, mod, clsname):
        """name -> (Module, FunctionDef), linearised depth-first (enough for this code base)."""
        out = {}
        seen = set()

        def rec(m, c):
            if (m.rel, c.name) in seen:
                return
            seen.add((m.rel, c.name))
            for st in c.body:
                if isinstance(st, ast.FunctionDef) and st.name not in out:
                    out[st.name] = (m, st)
            for b in c.bases:
                bn = b.id if isinstance(b, ast.Name) else (b.attr if isinstance(b, ast.Attribute) else None)
                if bn is None:
                    continue
                if isinstance(b, ast.Attribute) and isinstance(b.value, ast.Name):
                    tgt = m.imports.get(b.value.id)
                    if tgt and tgt.startswith("miasm"):
                        rel = tgt.replace(".", "/") + ".py"
                        if self.exists(rel):
                            m2 = self.mod(rel)
                            if bn in m2.classes:
                                rec(m2, m2.classes[bn])
                    continue
                m2, c2 = self.find_class(m, bn)
                if c2 is not None:
                    rec(m2, c2)
        rec(mod, mod.cls(clsname))
        return out
