"""Partial evaluation of *builder* code (translators, template helpers) over symbolic leaves.

The translators of miasm build a target-language object (a z3 term, an SMT-LIB string, C / Python source text) from an
expression.  What they build for one operator at one width is obtained here without importing or running miasm: the
translator's source is interpreted over
    - concrete Python values where everything is known (operator name, width, loop counters, masks, format strings), and
    - `Term`s for everything that stands for target-language material (translated operands, calls into the z3 module,
      strings with symbolic holes).
Loops over concrete ranges are unrolled, helpers of the same module / class are entered, temporaries disappear.  The result
is a Term tree that no longer depends on how the source spreads the formula over statements, locals and helpers.

Unknown constructs raise Undetermined: the caller reports "formulation not understood" (exit 2), never a violation.
"""
import ast
import operator

from .astutil import norm, dotted


class Undetermined(Exception):
    pass


class UnboundLocal(Exception):
    """A name that is local to the function being evaluated (assigned somewhere in it) is read on a path where it is not bound:
    the real code raises UnboundLocalError there - a definite defect, not a limit of the evaluator."""


class Term(tuple):
    """('head', arg, ...) - args are Terms or concrete Python values."""
    __slots__ = ()

    def __new__(cls, head, *args):
        return tuple.__new__(cls, (head,) + tuple(args))

    @property
    def head(self):
        return self[0]

    @property
    def args(self):
        return self[1:]

    def __repr__(self):
        return "%s(%s)" % (self[0], ", ".join(repr(a) for a in self[1:]))


class FakeExpr(object):
    """Stand-in for a miasm expression handed to a translator: concrete shape, symbolic content."""

    def __init__(self, kind, size, op=None, args=(), name=None, extra=None):
        self.kind, self.size, self.op, self.args, self.name = kind, size, op, list(args), name
        self.extra = extra or {}

    def __repr__(self):
        return "<%s %s/%s>" % (self.kind, self.name or self.op, self.size)

    # the API translators use on expressions
    def attr(self, name):
        if name in ("size", "op", "args", "name"):
            return getattr(self, name)
        if name in self.extra:
            return self.extra[name]
        raise Undetermined("attribute .%s of an expression" % name)

    def method(self, name, args):
        if name == "signExtend" and len(args) == 1 and isinstance(args[0], int):
            return FakeExpr("op", args[0], op="signExt_%d" % args[0], args=[self])
        if name == "zeroExtend" and len(args) == 1 and isinstance(args[0], int):
            return FakeExpr("op", args[0], op="zeroExt_%d" % args[0], args=[self])
        if name in ("is_int", "is_id", "is_mem", "is_op", "is_slice", "is_compose", "is_cond", "is_loc"):
            return self.kind == {"is_int": "int", "is_id": "id", "is_mem": "mem", "is_op": "op", "is_slice": "slice",
                                 "is_compose": "compose", "is_cond": "cond", "is_loc": "loc"}[name]
        raise Undetermined("method .%s() of an expression" % name)


_BIN = {ast.Add: operator.add, ast.Sub: operator.sub, ast.Mult: operator.mul, ast.FloorDiv: operator.floordiv, ast.Mod: operator.mod,
        ast.LShift: operator.lshift, ast.RShift: operator.rshift, ast.BitAnd: operator.and_, ast.BitOr: operator.or_,
        ast.BitXor: operator.xor, ast.Pow: operator.pow, ast.Div: operator.truediv}
_BIN_NAME = {ast.Add: "+", ast.Sub: "-", ast.Mult: "*", ast.FloorDiv: "//", ast.Mod: "%", ast.LShift: "<<", ast.RShift: ">>",
             ast.BitAnd: "&", ast.BitOr: "|", ast.BitXor: "^", ast.Pow: "**", ast.Div: "/"}
_CMP = {ast.Eq: operator.eq, ast.NotEq: operator.ne, ast.Lt: operator.lt, ast.LtE: operator.le, ast.Gt: operator.gt, ast.GtE: operator.ge}
_CMP_NAME = {ast.Eq: "==", ast.NotEq: "!=", ast.Lt: "<", ast.LtE: "<=", ast.Gt: ">", ast.GtE: ">="}


def canon_cmp(op, l, r):
    """Comparison terms in one orientation: > and >= are written with < and <= ; for == / != a concrete operand goes right."""
    if op == ">":
        op, l, r = "<", r, l
    elif op == ">=":
        op, l, r = "<=", r, l
    elif op in ("==", "!=") and not isinstance(l, Term) and isinstance(r, Term):
        l, r = r, l
    return Term("cmp", op, l, r)


def ctext_concat(parts):
    """flat text term: adjacent strings merged, nested ctext spliced"""
    out = []
    for p in parts:
        if isinstance(p, Term) and p.head == "ctext":
            items = list(p.args)
        else:
            items = [p]
        for it in items:
            if isinstance(it, str) and out and isinstance(out[-1], str):
                out[-1] += it
            elif it != "":
                out.append(it)
    if all(isinstance(x, str) for x in out):
        return "".join(out)
    return Term("ctext", *out)


def pct_format(fmt, args):
    """'..%s..%d..' % args with some symbolic arguments -> ctext term (symbolic arguments only under %s / %r)."""
    import re
    parts = []
    pos = 0
    k = 0
    for m in re.finditer(r"%(%|[-#0 +]*\d*(?:\.\d+)?[sdxXrif])", fmt):
        parts.append(fmt[pos:m.start()])
        pos = m.end()
        spec = m.group(0)
        if spec == "%%":
            parts.append("%")
            continue
        if k >= len(args):
            raise Undetermined("not enough arguments for format string")
        a = args[k]
        k += 1
        if _is_sym(a):
            if spec not in ("%s", "%r"):
                raise Undetermined("symbolic argument under %s" % spec)
            parts.append(a)
        else:
            parts.append(spec % a)
    parts.append(fmt[pos:])
    if k != len(args):
        raise Undetermined("too many arguments for format string")
    return ctext_concat(parts)


def _is_sym(v):
    if isinstance(v, Term):
        return True
    if isinstance(v, (list, tuple)):
        return any(_is_sym(x) for x in v)
    return False


def fmt_to_term(template, args, kwargs=None):
    """'(bvadd {} {})'.format(a, b) with symbolic a / b -> Term('sx', 'bvadd', a, b); fully concrete -> str."""
    if not _is_sym(list(args)) and not (kwargs and _is_sym(list(kwargs.values()))):
        return template.format(*args, **(kwargs or {}))
    # replace holes by markers, then read the s-expression
    holes = []

    class _H(object):
        def __init__(self, v):
            self.v = v

        def __format__(self, spec):
            holes.append(self.v)
            return "\x00%d\x00" % (len(holes) - 1)
    text = template.format(*[_H(a) for a in args], **dict((k, _H(v)) for k, v in (kwargs or {}).items()))
    return sexpr_to_term(text, holes)


def sexpr_to_term(text, holes=()):
    toks = []
    i = 0
    while i < len(text):
        c = text[i]
        if c in "()":
            toks.append(c)
            i += 1
        elif c.isspace():
            i += 1
        else:
            j = i
            while j < len(text) and not text[j].isspace() and text[j] not in "()":
                j += 1
            toks.append(text[i:j])
            i = j

    def atom(t):
        if t.startswith("\x00") and t.endswith("\x00"):
            return holes[int(t[1:-1])]
        if "\x00" in t:
            # a hole glued to text (e.g. bv{}): substitute concrete holes, else give up
            out = ""
            parts = t.split("\x00")
            for k, p in enumerate(parts):
                if k % 2 == 1:
                    h = holes[int(p)]
                    if _is_sym(h):
                        raise Undetermined("symbolic hole inside an SMT-LIB atom")
                    out += str(h)
                else:
                    out += p
            return out
        return t

    def parse(pos):
        if toks[pos] == "(":
            items = []
            pos += 1
            while toks[pos] != ")":
                it, pos = parse(pos)
                if isinstance(it, Term) and it.head == "cat" and isinstance(it.args[0], str) and it.args[0].strip() == "":
                    items.extend(it.args[1:])          # ' '.join(parts) spliced into the enclosing list
                else:
                    items.append(it)
            return Term("sx", *items), pos + 1
        return atom(toks[pos]), pos + 1
    if not toks:
        return ""
    out, pos = parse(0)
    if pos != len(toks):
        # several top-level items: keep as a sequence
        items = [out]
        while pos < len(toks):
            it, pos = parse(pos)
            items.append(it)
        return Term("seq", *items)
    return out


class Interp(object):
    """functions: {name: FunctionDef} callable by bare name; methods: {name: FunctionDef} callable as self.name(...);
    consts: module-level / class-level constants; externals: names of modules whose calls become Terms (e.g. 'z3')."""

    def __init__(self, functions=None, methods=None, consts=None, externals=("z3",), leaf=None, max_steps=200000):
        self.functions = functions or {}
        self.methods = methods or {}
        self.consts = consts or {}
        self.externals = tuple(externals)
        self.leaf = leaf or (lambda e: Term("leaf", e.name or e.op, e.size))
        self.steps = 0
        self.max_steps = max_steps
        self.depth = 0

    # ------------------------------------------------------------------ calls
    def call_function(self, fdef, args, kwargs=None, self_obj=None):
        self.depth += 1
        if self.depth > 40:
            raise Undetermined("call depth")
        try:
            env = {"__locals__": set(t.id for n in ast.walk(fdef) for t in ast.walk(n) if isinstance(t, ast.Name) and isinstance(t.ctx, ast.Store)),
                   "__fname__": fdef.name}
            params = [a.arg for a in fdef.args.args]
            if self_obj is not None:
                env[params[0]] = self_obj
                params = params[1:]
            defaults = fdef.args.defaults
            dvals = dict(zip(params[len(params) - len(defaults):], defaults))
            for i, p in enumerate(params):
                if i < len(args):
                    env[p] = args[i]
                elif kwargs and p in kwargs:
                    env[p] = kwargs[p]
                elif p in dvals:
                    env[p] = self.ev(dvals[p], {})
                else:
                    raise Undetermined("missing argument %s of %s" % (p, fdef.name))
            if fdef.args.vararg is not None:
                env[fdef.args.vararg.arg] = tuple(args[len(params):])
            kind, val = self.run(fdef.body, env)
            if kind == "raise":
                raise Undetermined("%s raises on this input" % fdef.name)
            return val
        finally:
            self.depth -= 1

    # ------------------------------------------------------------------ statements
    def run(self, stmts, env):
        for st in stmts:
            self.steps += 1
            if self.steps > self.max_steps:
                raise Undetermined("step budget")
            if isinstance(st, ast.Expr):
                if isinstance(st.value, ast.Constant):
                    continue
                self.ev(st.value, env)
            elif isinstance(st, ast.Assign):
                v = self.ev(st.value, env)
                for t in st.targets:
                    self.assign(t, v, env)
            elif isinstance(st, ast.AugAssign):
                cur = self.ev(st.target, env)
                v = self.binop(type(st.op), cur, self.ev(st.value, env))
                self.assign(st.target, v, env)
            elif isinstance(st, ast.Return):
                return "return", (self.ev(st.value, env) if st.value is not None else None)
            elif isinstance(st, ast.Raise):
                return "raise", None
            elif isinstance(st, ast.If):
                c = self.truth(self.ev(st.test, env))
                r = self.run(st.body if c else st.orelse, env)
                if r[0] != "fall":
                    return r
            elif isinstance(st, ast.For):
                it = self.ev(st.iter, env)
                if isinstance(it, Term):
                    raise Undetermined("loop over a symbolic sequence")
                broke = False
                for x in list(it):
                    self.assign(st.target, x, env)
                    r = self.run(st.body, env)
                    if r[0] == "break":
                        broke = True
                        break
                    if r[0] in ("return", "raise"):
                        return r
                if not broke and st.orelse:
                    r = self.run(st.orelse, env)
                    if r[0] != "fall":
                        return r
            elif isinstance(st, ast.While):
                n = 0
                while self.truth(self.ev(st.test, env)):
                    n += 1
                    if n > 4096:
                        raise Undetermined("while loop bound")
                    r = self.run(st.body, env)
                    if r[0] == "break":
                        break
                    if r[0] in ("return", "raise"):
                        return r
            elif isinstance(st, ast.Break):
                return "break", None
            elif isinstance(st, ast.Continue):
                return "continue", None
            elif isinstance(st, (ast.Pass, ast.Assert, ast.Import, ast.ImportFrom, ast.Global)):
                continue
            elif isinstance(st, ast.Try):
                r = self.run(st.body, env)
                if r[0] != "fall":
                    return r
            else:
                raise Undetermined("statement %s" % type(st).__name__)
        return "fall", None

    def assign(self, t, v, env):
        if isinstance(t, ast.Name):
            env[t.id] = v
        elif isinstance(t, (ast.Tuple, ast.List)):
            if isinstance(v, Term):
                raise Undetermined("unpacking a symbolic value")
            vs = list(v)
            if len(vs) != len(t.elts):
                raise Undetermined("unpack arity")
            for tt, vv in zip(t.elts, vs):
                self.assign(tt, vv, env)
        elif isinstance(t, ast.Subscript):
            base = self.ev(t.value, env)
            idx = self.ev(t.slice, env)
            if isinstance(base, (dict, list)) and not _is_sym(idx):
                base[idx] = v
            else:
                raise Undetermined("store into %s" % norm(t))
        elif isinstance(t, ast.Attribute):
            base = self.ev(t.value, env)
            if isinstance(base, dict):
                base[t.attr] = v
            else:
                raise Undetermined("attribute store %s" % norm(t))
        else:
            raise Undetermined("assignment target")

    sym_truthy = False      # symbolic values stand for non-empty strings (text builders): truthy

    def truth(self, v):
        if isinstance(v, Term):
            if self.sym_truthy and v.head in ("sx", "leaf", "seq", "cat"):
                return True
            raise Undetermined("branch on a symbolic value %r" % (v,))
        return bool(v)

    # ------------------------------------------------------------------ expressions
    text_mode = False       # builders of source text (C): str % (symbolic,..) and str + symbolic give `ctext` terms

    def binop(self, op, l, r):
        if op is ast.Mod and isinstance(l, str) and _is_sym(r):
            return pct_format(l, r if (isinstance(r, tuple) and not isinstance(r, Term)) else (r,))
        if self.text_mode and op is ast.Add and (isinstance(l, str) or (isinstance(l, Term) and l.head == "ctext")) \
                and (isinstance(r, str) or (isinstance(r, Term) and r.head in ("ctext", "leaf", "sext", "zext"))):
            return ctext_concat([l, r])
        if isinstance(l, Term) or isinstance(r, Term):
            return Term("op", _BIN_NAME[op], l, r)
        if op is ast.Mod and isinstance(l, str):
            return l % r
        return _BIN[op](l, r)

    def ev(self, e, env):
        self.steps += 1
        if self.steps > self.max_steps:
            raise Undetermined("step budget")
        if isinstance(e, ast.Constant):
            return e.value
        if isinstance(e, ast.Name):
            if e.id in env:
                return env[e.id]
            if e.id in self.consts:
                return self.consts[e.id]
            if e.id in self.functions:
                return ("__func__", self.functions[e.id])
            if e.id in ("True", "False", "None"):
                return {"True": True, "False": False, "None": None}[e.id]
            if e.id in self.externals:
                return ("__ext__", e.id)
            if e.id in ("range", "len", "list", "tuple", "map", "int", "str", "reversed", "enumerate", "zip", "min", "max", "abs", "sorted", "isinstance", "hex", "bool", "sum"):
                return ("__builtin__", e.id)
            if e.id in env.get("__locals__", ()):
                raise UnboundLocal("`%s` is read in %s before any assignment on this path (UnboundLocalError)" % (e.id, env.get("__fname__")))
            raise Undetermined("free name %s" % e.id)
        if isinstance(e, ast.Attribute):
            base = self.ev(e.value, env)
            if isinstance(base, tuple) and base and base[0] == "__ext__":
                return ("__ext__", base[1] + "." + e.attr)
            if isinstance(base, FakeExpr):
                try:
                    return base.attr(e.attr)
                except Undetermined:
                    return ("__exprmeth__", base, e.attr)
            if isinstance(base, dict) and base.get("__record__"):
                if e.attr in base:
                    return base[e.attr]
                raise Undetermined("record attribute .%s" % e.attr)
            if isinstance(base, dict) and base.get("__self__"):
                if e.attr in base:
                    return base[e.attr]
                if e.attr in self.methods:
                    return ("__method__", self.methods[e.attr], base)
                raise Undetermined("self.%s" % e.attr)
            if isinstance(base, str) and e.attr in ("format", "join", "startswith", "endswith", "replace", "lower", "upper", "split", "strip"):
                return ("__strmeth__", base, e.attr)
            if isinstance(base, list) and e.attr in ("append", "extend", "pop", "insert", "reverse"):
                return ("__listmeth__", base, e.attr)
            if isinstance(base, dict) and e.attr in ("get", "items", "keys", "values"):
                return ("__dictmeth__", base, e.attr)
            if isinstance(base, Term):
                return ("__termmeth__", base, e.attr)
            raise Undetermined("attribute %s" % norm(e))
        if isinstance(e, ast.Call):
            return self.call(e, env)
        if isinstance(e, ast.BinOp):
            return self.binop(type(e.op), self.ev(e.left, env), self.ev(e.right, env))
        if isinstance(e, ast.UnaryOp):
            v = self.ev(e.operand, env)
            if isinstance(v, Term):
                if isinstance(e.op, ast.Not):
                    raise Undetermined("not on a symbolic value")
                return Term("op", {ast.USub: "neg", ast.Invert: "~", ast.UAdd: "pos"}[type(e.op)], v)
            return {ast.USub: operator.neg, ast.Invert: operator.invert, ast.Not: operator.not_, ast.UAdd: operator.pos}[type(e.op)](v)
        if isinstance(e, ast.Compare):
            l = self.ev(e.left, env)
            res = True
            for o, c in zip(e.ops, e.comparators):
                r = self.ev(c, env)
                if isinstance(o, (ast.Is, ast.IsNot)):
                    v = (l is r) if not (isinstance(l, Term) or isinstance(r, Term)) else False
                    v = v if isinstance(o, ast.Is) else not v
                elif isinstance(o, (ast.In, ast.NotIn)):
                    if _is_sym(l) or isinstance(r, Term):
                        raise Undetermined("membership on symbolic value")
                    v = (l in r) if isinstance(o, ast.In) else (l not in r)
                elif isinstance(l, Term) or isinstance(r, Term):
                    if (l is None or r is None) and isinstance(o, (ast.Eq, ast.NotEq)):
                        v = isinstance(o, ast.NotEq)           # a term is never None
                    else:
                        if len(e.ops) != 1:
                            raise Undetermined("chained symbolic comparison")
                        return canon_cmp(_CMP_NAME[type(o)], l, r)
                else:
                    v = _CMP[type(o)](l, r)
                if not v:
                    return False
                l = r
            return res
        if isinstance(e, ast.BoolOp):
            v = None
            for x in e.values:
                v = self.ev(x, env)
                t = self.truth(v)
                if isinstance(e.op, ast.And) and not t:
                    return v
                if isinstance(e.op, ast.Or) and t:
                    return v
            return v
        if isinstance(e, ast.IfExp):
            return self.ev(e.body if self.truth(self.ev(e.test, env)) else e.orelse, env)
        if isinstance(e, (ast.List, ast.Tuple)):
            vals = []
            for x in e.elts:
                if isinstance(x, ast.Starred):
                    vals.extend(self.ev(x.value, env))
                else:
                    vals.append(self.ev(x, env))
            return vals if isinstance(e, ast.List) else tuple(vals)
        if isinstance(e, ast.Dict):
            return dict((self.ev(k, env), self.ev(v, env)) for k, v in zip(e.keys, e.values))
        if isinstance(e, ast.Subscript):
            base = self.ev(e.value, env)
            if isinstance(e.slice, ast.Slice):
                lo = self.ev(e.slice.lower, env) if e.slice.lower is not None else None
                hi = self.ev(e.slice.upper, env) if e.slice.upper is not None else None
                stp = self.ev(e.slice.step, env) if e.slice.step is not None else None
                if isinstance(base, Term):
                    raise Undetermined("slice of a symbolic value")
                return base[slice(lo, hi, stp)]
            idx = self.ev(e.slice, env)
            if isinstance(base, Term) or _is_sym(idx):
                return Term("index", base, idx)
            return base[idx]
        if isinstance(e, (ast.ListComp, ast.GeneratorExp)):
            out = []

            def rec(gi, env2):
                if gi == len(e.generators):
                    out.append(self.ev(e.elt, env2))
                    return
                g = e.generators[gi]
                it = self.ev(g.iter, env2)
                if isinstance(it, Term):
                    raise Undetermined("comprehension over a symbolic sequence")
                for x in list(it):
                    env3 = dict(env2)
                    self.assign(g.target, x, env3)
                    if all(self.truth(self.ev(c, env3)) for c in g.ifs):
                        rec(gi + 1, env3)
            rec(0, dict(env))
            return out
        if isinstance(e, ast.JoinedStr):
            parts = []
            for v in e.values:
                if isinstance(v, ast.Constant):
                    parts.append(v.value)
                else:
                    x = self.ev(v.value, env)
                    if _is_sym(x):
                        raise Undetermined("f-string with symbolic part")
                    parts.append(format(x, self.ev(v.format_spec, env) if v.format_spec is not None else ""))
            return "".join(parts)
        if isinstance(e, ast.Lambda):
            return ("__lambda__", e, dict(env))
        raise Undetermined("expression %s" % type(e).__name__)

    def call(self, e, env):
        f = self.ev(e.func, env)
        args = []
        for a in e.args:
            if isinstance(a, ast.Starred):
                args.extend(self.ev(a.value, env))
            else:
                args.append(self.ev(a, env))
        kwargs = dict((k.arg, self.ev(k.value, env)) for k in e.keywords if k.arg)
        if isinstance(f, tuple) and f:
            tag = f[0]
            if tag == "__ext__":
                return Term(f[1], *args, **{}) if not kwargs else Term(f[1], *(args + [Term("kw", k, v) for k, v in sorted(kwargs.items())]))
            if tag == "__func__":
                return self.call_function(f[1], args, kwargs)
            if tag == "__method__":
                return self.call_function(f[1], args, kwargs, self_obj=f[2])
            if tag == "__lambda__":
                lam, cenv = f[1], dict(f[2])
                for p, v in zip([a.arg for a in lam.args.args], args):
                    cenv[p] = v
                return self.ev(lam.body, cenv)
            if tag == "__exprmeth__":
                return f[1].method(f[2], args)
            if tag == "__termmeth__":
                if f[2] == "size" and not args:
                    t = f[1]
                    if t.head == "leaf":
                        return t[2]
                    raise Undetermined("size() of a composite term")
                raise Undetermined("method .%s() of a term" % f[2])
            if tag == "__strmeth__":
                s, name = f[1], f[2]
                if name == "format":
                    return fmt_to_term(s, args, kwargs)
                if name == "join" and len(args) == 1 and _is_sym(args[0]) and not isinstance(args[0], Term):
                    if self.text_mode:
                        items = []
                        for i_, x_ in enumerate(args[0]):
                            if i_:
                                items.append(s)
                            items.append(x_)
                        return ctext_concat(items)
                    return Term("cat", s, *list(args[0]))
                if _is_sym(args):
                    raise Undetermined("str.%s with symbolic argument" % name)
                return getattr(s, name)(*args)
            if tag == "__listmeth__":
                return getattr(f[1], f[2])(*args)
            if tag == "__dictmeth__":
                return getattr(f[1], f[2])(*args)
            if tag == "__builtin__":
                name = f[1]
                if name == "map":
                    fn = args[0]
                    return [self.apply(fn, [x]) for x in args[1]]
                if name == "isinstance":
                    raise Undetermined("isinstance")
                if name in ("len", "list", "tuple", "reversed", "enumerate", "zip", "sorted", "sum", "range", "min", "max"):
                    if any(isinstance(a, Term) for a in args):
                        raise Undetermined("%s of a symbolic value" % name)
                    r = {"len": len, "list": list, "tuple": tuple, "reversed": lambda x: list(reversed(x)), "enumerate": lambda *a: list(enumerate(*a)),
                         "zip": lambda *a: list(zip(*a)), "sorted": sorted, "sum": sum, "range": lambda *a: list(range(*a)), "min": min, "max": max}[name](*args)
                    return r
                if name == "str" and len(args) == 1 and isinstance(args[0], Term):
                    return args[0]            # the text of a symbolic string is that string
                if any(isinstance(a, Term) for a in args):
                    raise Undetermined("%s of a symbolic value" % name)
                return {"int": int, "str": str, "abs": abs, "hex": hex, "bool": bool}[name](*args)
        raise Undetermined("call of %s" % norm(e.func))

    def apply(self, fn, args):
        if isinstance(fn, tuple) and fn and fn[0] == "__method__":
            return self.call_function(fn[1], args, None, self_obj=fn[2])
        if isinstance(fn, tuple) and fn and fn[0] == "__func__":
            return self.call_function(fn[1], args)
        if isinstance(fn, tuple) and fn and fn[0] == "__lambda__":
            lam, cenv = fn[1], dict(fn[2])
            for p, v in zip([a.arg for a in lam.args.args], args):
                cenv[p] = v
            return self.ev(lam.body, cenv)
        raise Undetermined("apply")


# ---------------------------------------------------------------------------------------------------------------------
# canonical readers of term families (shared by the z3 and SMT-LIB rules)

def flatten(t, heads):
    """Arguments of a nest of one associative operator (given as a predicate on terms returning the two operands or None)."""
    ops = heads(t)
    if ops is None:
        return [t]
    out = []
    for o in ops:
        out.extend(flatten(o, heads))
    return out
