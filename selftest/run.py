#!/usr/bin/env python3
"""Self-test: apply each catalogued variant to a scratch copy of /repo's sources (outside /repo and
/verif), run the property's check against the copy, and compare with the expectation:
  fire   - the check must exit 1 and name the expected rule (and construct fragment, if given)
  silent - the check must exit 0
Usage: selftest/run.py [PID ...] [-j N] [-k substring]
"""
import concurrent.futures
import importlib
import os
import shutil
import subprocess
import sys
import tempfile

HERE = os.path.dirname(os.path.dirname(os.path.abspath(__file__)))
sys.path.insert(0, HERE)
REPO = os.environ.get("VERIF_REPO", "/repo")
SCRATCH_BASE = "/dev/shm" if os.path.isdir("/dev/shm") else tempfile.gettempdir()


def load_variants(pids):
    out = []
    d = os.path.join(HERE, "selftest", "variants")
    for fn in sorted(os.listdir(d)):
        if not fn.endswith(".py") or fn.startswith("_"):
            continue
        pid = fn[:-3].upper()
        if pids and pid not in pids:
            continue
        mod = importlib.import_module("selftest.variants." + fn[:-3])
        out.append({"pid": pid, "name": "baseline-unchanged-tree", "expect": "silent", "edits": []})
        for v in mod.VARIANTS:
            v = dict(v)
            v["pid"] = pid
            out.append(v)
    return out


def run_variant(v):
    work = tempfile.mkdtemp(prefix="verif_st_", dir=SCRATCH_BASE)
    try:
        root = os.path.join(work, "repo")
        os.makedirs(root)
        # copy only sources the checkers read (miasm/ without build artefacts)
        shutil.copytree(os.path.join(REPO, "miasm"), os.path.join(root, "miasm"),
                        ignore=shutil.ignore_patterns("*.so", "__pycache__", "*.pyc"))
        for (rel, old, new) in v["edits"]:
            p = os.path.join(root, rel)
            with open(p) as f:
                s = f.read()
            if s.count(old) < 1:
                return v, "BROKEN-VARIANT", "pattern not found in %s: %r" % (rel, old[:60])
            if v.get("all"):
                s = s.replace(old, new)
            else:
                if s.count(old) != 1:
                    return v, "BROKEN-VARIANT", "pattern occurs %d times in %s: %r" % (s.count(old), rel, old[:60])
                s = s.replace(old, new)
            with open(p, "w") as f:
                f.write(s)
            if rel.endswith(".py"):
                try:
                    compile(s, rel, "exec")
                except SyntaxError as e:
                    return v, "BROKEN-VARIANT", "variant does not compile: %s" % e
        env = dict(os.environ)
        env["VERIF_REPO"] = root
        env["VERIF_OUT"] = work
        r = subprocess.run([os.path.join(HERE, "check"), v["pid"], "--tier", "quick"], env=env,
                           stdout=subprocess.PIPE, stderr=subprocess.STDOUT, universal_newlines=True)
        out = r.stdout
        if v["expect"] == "fire":
            if r.returncode != 1:
                return v, "MISSED", "exit %d\n%s" % (r.returncode, out[-600:])
            if v.get("rule") and ("rule %s:" % v["rule"]) not in out:
                return v, "WRONG-RULE", out[-800:]
            if v.get("names") and v["names"] not in out:
                return v, "WRONG-CONSTRUCT", out[-800:]
            return v, "ok", ""
        if r.returncode != 0:
            return v, "FALSE-ALARM" if r.returncode == 1 else "ANALYSIS-ERROR", out[-800:]
        return v, "ok", ""
    finally:
        shutil.rmtree(work, ignore_errors=True)


def main():
    args = sys.argv[1:]
    jobs = 16
    key = None
    pids = []
    i = 0
    while i < len(args):
        if args[i] == "-j":
            jobs = int(args[i + 1]); i += 2
        elif args[i] == "-k":
            key = args[i + 1]; i += 2
        else:
            pids.append(args[i].upper()); i += 1
    vs = load_variants(pids)
    if key:
        vs = [v for v in vs if key in v["name"]]
    bad = 0
    with concurrent.futures.ThreadPoolExecutor(max_workers=jobs) as ex:
        for v, status, msg in ex.map(run_variant, vs):
            if status != "ok":
                bad += 1
                print("%-14s %s %s (%s)\n%s" % (status, v["pid"], v["name"], v["expect"], msg))
    print("selftest: %d variants, %d not as expected" % (len(vs), bad))
    return 1 if bad else 0


if __name__ == "__main__":
    sys.exit(main())
