#!/usr/bin/env python3
"""tools/seed_prompt.py <PID>: the prompt given to an independent agent that writes a breaking change for the property
(only the property text and a scratch worktree path; nothing from /verif)."""
import json, os, sys
VERIF = os.path.dirname(os.path.dirname(os.path.abspath(__file__)))
pid = sys.argv[1]
name = sys.argv[2] if len(sys.argv) > 2 else pid
p = [json.loads(l) for l in open(os.path.join(VERIF, "properties.jsonl")) if json.loads(l)["id"] == pid][0]
wt = "/tmp/wt/%s" % name
extra = sys.argv[3] if len(sys.argv) > 3 else ""
print("""You are working in a scratch git worktree of the cea-sec/miasm repository at %(wt)s (interpreter with all dependencies: /venv/bin/python; the existing test suite is run with `cd %(wt)s && /venv/bin/python -m pytest -q -p no:cacheprovider test/arch/mep` and its 280 tests must pass). Work ONLY inside %(wt)s; do not read or touch /repo, /verif or any other directory. There is no network. Note: a script run from %(wt)s/seed imports the installed miasm from another directory by default; demo.py must put the worktree root first on sys.path and assert miasm was loaded from the worktree. C extension modules (*.so) in the worktree are pre-built copies; if you change C sources, rebuild only the one module you need with gcc into the worktree (python3-config --includes) and say how.

Task: produce ONE realistic source change to miasm (a plausible regression a maintainer could introduce: a refactor gone wrong, a dropped update of one of several synchronized structures, an off-by-one in a bound, a stale entry, a sibling implementation updated without the other, two cooperating sites that each look fine alone ...) that BREAKS the property below while the code still imports and the 280 existing tests still pass. The breakage must need something specific to manifest (a particular input shape, boundary value, operation sequence or configuration), not be exposed by ordinary use at once.%(extra)s

Property %(id)s - %(title)s
Statement: %(statement)s
Quantifier: %(q)s
Code it concerns: %(files)s

Deliver in %(wt)s/seed/ : (1) patch.diff = output of `git diff -- miasm` for your change (only files under miasm/); (2) demo.py = a small standalone script, run as `cd %(wt)s && /venv/bin/python seed/demo.py`, that exits 0 on the unpatched tree and exits non-zero (failing assertion or uncaught exception) with the patch applied; (3) notes.md = what the change is, why it looks innocuous, what exactly it needs to manifest. Verify yourself: demo exits 0 without the patch (toggle the patch with `git apply -R seed/patch.diff` / `git apply seed/patch.diff`; NEVER use `git stash`: the stash is shared with other worktrees of this repository that other people are using right now), non-zero with it; the 280 tests pass with the patch applied. Keep the change small (at most ~30 changed lines). Leave the patch APPLIED in the worktree when you finish. Final answer: the paths and a 5-line summary of the change and of what triggers it.""" % {
    "wt": wt, "id": pid, "title": p["title"], "statement": p["statement"], "q": p["quantifier"]["text"],
    "files": ", ".join(p["anchors"]["files"]), "extra": (" " + extra) if extra else ""})
