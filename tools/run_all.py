#!/usr/bin/env python3
"""Run every claimed check (quick or thorough) in parallel; print one line per property."""
import concurrent.futures, json, os, subprocess, sys, time
HERE = os.path.dirname(os.path.dirname(os.path.abspath(__file__)))
tier = sys.argv[1] if len(sys.argv) > 1 else "quick"
man = json.load(open(os.path.join(HERE, "MANIFEST.json")))
def run(c):
    t = time.time()
    cmd = c["quick_cmd"] if tier == "quick" else c.get("thorough_cmd", c["quick_cmd"])
    r = subprocess.run(cmd, shell=True, cwd=HERE, stdout=subprocess.PIPE, stderr=subprocess.STDOUT, universal_newlines=True)
    return c["property_id"], r.returncode, time.time() - t, r.stdout
bad = 0
with concurrent.futures.ThreadPoolExecutor(max_workers=8) as ex:
    for pid, rc, dt, out in ex.map(run, man["checks"]):
        kf = out.count("KNOWN-FINDING")
        print("%s exit=%d %.1fs known=%d %s" % (pid, rc, dt, kf, out.strip().splitlines()[-1][:110] if out.strip() else ""))
        if rc != 0:
            bad += 1
            print(out[-1500:])
sys.exit(1 if bad else 0)
