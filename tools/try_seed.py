#!/usr/bin/env python3
"""tools/try_seed.py <PID> <worktree> [<seed name>]
Confirms an independently written breaking change and runs the property's check against it:
 1. in the worktree: demo.py exits 0 without the patch and non-zero with it; the baseline suite passes with the patch
 2. applies patch.diff to /repo, runs ./check <PID> (quick), reverts /repo (git checkout -- .)
 3. stores patch.diff, demo.py, notes.md and meta.json under /verif/seeded/<name>/
"""
import json, os, shutil, subprocess, sys
VERIF = os.path.dirname(os.path.dirname(os.path.abspath(__file__)))
pid, wt = sys.argv[1], sys.argv[2]
name = sys.argv[3] if len(sys.argv) > 3 else pid
seed = os.path.join(wt, "seed")
PY = "/venv/bin/python"
def run(cmd, cwd, timeout=1800):
    r = subprocess.run(cmd, shell=True, cwd=cwd, stdout=subprocess.PIPE, stderr=subprocess.STDOUT, universal_newlines=True, timeout=timeout)
    return r.returncode, r.stdout
meta = {"property": pid, "name": name}
# state: patch applied in the worktree
rc, out = run("git diff --stat -- miasm | tail -1", wt); meta["diffstat"] = out.strip()
# bring the worktree to exactly "HEAD + patch.diff" (git stash is shared between worktrees: never used here)
run("git checkout -- miasm && git apply seed/patch.diff", wt)
rc_with, out_with = run("%s seed/demo.py" % PY, wt)
run("git apply -R seed/patch.diff", wt)
rc_without, out_without = run("%s seed/demo.py" % PY, wt)
run("git apply seed/patch.diff", wt)
meta["demo_exit_with_patch"] = rc_with
meta["demo_exit_without_patch"] = rc_without
rc_t, out_t = run("%s -m pytest -q -p no:cacheprovider --timeout=900 test/arch/mep 2>&1 | tail -1" % PY, wt)
meta["suite_with_patch"] = out_t.strip()
print("demo without patch: exit %d; with patch: exit %d; suite: %s" % (rc_without, rc_with, out_t.strip()))
print("  with-patch demo tail:", out_with.strip().splitlines()[-1][:200] if out_with.strip() else "")
ok = rc_without == 0 and rc_with != 0 and "280 passed" in out_t
meta["confirmed"] = ok
# run the check against /repo with the patch applied
patch = os.path.join(seed, "patch.diff")
rc_a, out_a = run("git -C /repo apply --check %s" % patch, VERIF)
if rc_a != 0:
    print("patch does not apply to /repo:", out_a[:300]); meta["applies"] = False
else:
    meta["applies"] = True
    if os.environ.get("TRY_SCRATCH") == "1":
        # same check against a scratch copy of /repo's tree (used while a background run is reading /repo)
        scratch = "/dev/shm/try_seed_%s_%d" % (name, os.getpid())
        shutil.rmtree(scratch, ignore_errors=True)
        os.makedirs(scratch)
        try:
            run("git -C /repo archive HEAD miasm | tar x -C %s" % scratch, VERIF)
            run("patch -p1 -s < %s" % patch, scratch)
            os.makedirs(os.path.join(scratch, "out"))
            rc_c, out_c = run("VERIF_REPO=%s VERIF_OUT=%s/out ./check %s --tier quick" % (scratch, scratch, pid), VERIF)
        finally:
            shutil.rmtree(scratch, ignore_errors=True)
    else:
      try:
        run("git -C /repo apply %s" % patch, VERIF)
        env_out = "/dev/shm/seed_out_%s" % name
        os.makedirs(env_out, exist_ok=True)
        rc_c, out_c = run("VERIF_OUT=%s ./check %s --tier quick" % (env_out, pid), VERIF)
        shutil.rmtree(env_out, ignore_errors=True)
      finally:
        run("git -C /repo checkout -- .", VERIF)
    meta["check_exit"] = rc_c
    viol = [l for l in out_c.splitlines() if l.startswith("VIOLATION") or l.startswith("  rule") or l.startswith("  at ")]
    meta["check_report"] = viol[:12]
    print("check exit %d" % rc_c)
    for l in viol[:9]:
        print("   ", l[:220])
dst = os.path.join(VERIF, "seeded", name)
os.makedirs(dst, exist_ok=True)
for f in ("patch.diff", "demo.py", "notes.md"):
    if os.path.exists(os.path.join(seed, f)):
        shutil.copy(os.path.join(seed, f), os.path.join(dst, f))
meta["what_it_needs"] = "see notes.md"
meta["ran"] = ["demo.py with and without the patch in a scratch worktree", "pytest test/arch/mep with the patch", "./check %s --tier quick with the patch applied to /repo, then reverted" % pid]
json.dump(meta, open(os.path.join(dst, "meta.json"), "w"), indent=1)
st = subprocess.run("git -C /repo status --short | head -3", shell=True, stdout=subprocess.PIPE, universal_newlines=True).stdout
print("repo clean:", not st.strip())
