#!/usr/bin/env python3
"""tools/seed2_prompt.py <PID> <name>: second-round prompt = seed_prompt + 'choose another place than the earlier seed(s)'
(the places are read from the hunk headers of the stored earlier seeds of the property; nothing about the checks is disclosed)."""
import json, os, re, subprocess, sys
VERIF = os.path.dirname(os.path.dirname(os.path.abspath(__file__)))
pid, name = sys.argv[1], sys.argv[2]
places = []
for d in sorted(os.listdir(os.path.join(VERIF, "seeded"))):
    mp = os.path.join(VERIF, "seeded", d, "meta.json")
    if not os.path.exists(mp) or json.load(open(mp)).get("property") != pid:
        continue
    cur = None
    for l in open(os.path.join(VERIF, "seeded", d, "patch.diff")):
        if l.startswith("+++ b/"):
            cur = l[6:].strip()
        m = re.match(r"@@ .* @@ (?:def|class) (\w+)", l)
        if m and cur:
            places.append("%s (%s)" % (m.group(1), cur))
places = sorted(set(places))
extra = ""
if places:
    extra = ("Earlier submissions already changed: %s. Pick a DIFFERENT function and a different mechanism of the property "
             "(another clause of the statement, another file of the list, another data structure)." % "; ".join(places))
out = subprocess.run([sys.executable, os.path.join(VERIF, "tools", "seed_prompt.py"), pid, name, extra], stdout=subprocess.PIPE, universal_newlines=True).stdout
sys.stdout.write(out)
