#!/usr/bin/env python3
"""tools/gen_alpha_ref.py: (re)generate /verif/reference/alpha.json from /repo's current tree - the local names and statement shapes of
every function of every Python file some check consults.  Run on the reviewed tree only (after a fix: commit, for instance)."""
import ast, json, os, sys
VERIF = os.path.dirname(os.path.dirname(os.path.abspath(__file__)))
sys.path.insert(0, VERIF)
os.environ["VERIF_NOALPHA"] = "1"
from sa import alpha
from sa.canonical import canonicalise
REPO = os.environ.get("VERIF_REPO", "/repo")
files = set()
for f in sorted(os.listdir(os.path.join(VERIF, "evidence"))):
    if f.endswith(".json"):
        e = json.load(open(os.path.join(VERIF, "evidence", f)))
        for rel in (e.get("coverage", {}).get("files_analysed") or {}):
            if rel.endswith(".py"):
                files.add(rel)
out = {}
import warnings
for rel in sorted(files):
    p = os.path.join(REPO, rel)
    if not os.path.exists(p):
        continue
    with warnings.catch_warnings():
        warnings.simplefilter("ignore")
        tree = canonicalise(ast.parse(open(p).read()))
        if os.environ.get("VERIF_NOINLINE") != "1":
            from sa.prenorm import inline_private_helpers_in_module, overridden_private_names
            inline_private_helpers_in_module(tree, never=overridden_private_names(REPO))
    rec = {}
    for q, fn in alpha.qualnames(tree).items():
        d = alpha.describe(fn)
        if any(x[1] for x in d):
            rec[q] = d
    out[rel] = rec
os.makedirs(os.path.join(VERIF, "reference"), exist_ok=True)
json.dump(out, open(os.path.join(VERIF, "reference", "alpha.json"), "w"), separators=(",", ":"), sort_keys=True)
print("files %d, functions %d, bytes %d" % (len(out), sum(len(v) for v in out.values()), os.path.getsize(os.path.join(VERIF, "reference", "alpha.json"))))
