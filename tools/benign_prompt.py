#!/usr/bin/env python3
"""tools/benign_prompt.py <PID> [<name>]: the prompt given to an independent agent that writes a BEHAVIOUR-PRESERVING change in the
code a property concerns (only the property text and a scratch worktree path; nothing from /verif). The property's check must
stay silent on it."""
import json, os, sys
VERIF = os.path.dirname(os.path.dirname(os.path.abspath(__file__)))
pid = sys.argv[1]
name = sys.argv[2] if len(sys.argv) > 2 else pid + "b"
p = [json.loads(l) for l in open(os.path.join(VERIF, "properties.jsonl")) if json.loads(l)["id"] == pid][0]
wt = "/tmp/wt/%s" % name
print("""You are working in a scratch git worktree of the cea-sec/miasm repository at %(wt)s (interpreter with all dependencies: /venv/bin/python; the existing test suite is run with `cd %(wt)s && /venv/bin/python -m pytest -q -p no:cacheprovider test/arch/mep` and its 280 tests must pass). Work ONLY inside %(wt)s; do not read or touch /repo, /verif or any other directory. There is no network. Note: a script run from %(wt)s/seed imports the installed miasm from another directory by default; demo.py must put the worktree root first on sys.path and assert miasm was loaded from the worktree. %(csrc)s

Task: produce ONE realistic BEHAVIOUR-PRESERVING source change (the kind of clean-up a maintainer commits: rename local variables, introduce or inline a temporary, reorder independent statements, replace an idiom by an equivalent one (%%-formatting by str.format, `if/else` by a conditional expression, a loop by a comprehension, `a <= b` by `b >= a`, a helper extracted or inlined), restructure an if/elif chain without changing what it computes, add comments / logging) inside the code that implements the property below - in the very functions that make the property true, not in unrelated code. The property must STILL HOLD after your change, for every input: be careful and conservative, and double-check equivalence on edge cases. Change 5 to 30 lines, in one or two functions.%(hint)s

Property %(id)s - %(title)s
Statement: %(statement)s
Quantifier: %(q)s
Code it concerns: %(files)s

Deliver in %(wt)s/seed/ : (1) patch.diff = output of `git diff -- miasm` for your change (only files under miasm/); (2) demo.py = a small standalone script, run as `cd %(wt)s && /venv/bin/python seed/demo.py`, that exercises the changed functions on a good range of inputs including edge cases, compares against independently computed expected results, and exits 0 both on the unpatched tree and with the patch applied; (3) notes.md = what the change is and why it is behaviour-preserving. Verify yourself: demo exits 0 without the patch (toggle the patch with `git apply -R seed/patch.diff` / `git apply seed/patch.diff`; NEVER use `git stash`: the stash is shared with other worktrees of this repository that other people are using right now) and with it; the 280 tests pass with the patch applied. Leave the patch APPLIED in the worktree when you finish. Final answer: the paths and a 5-line summary of the change.""" % {
    "wt": wt, "id": pid, "title": p["title"], "statement": p["statement"], "q": p["quantifier"]["text"],
    "files": ", ".join(p["anchors"]["files"]),
    "csrc": ("Make your change in the C sources listed below (not in Python): C extension modules (*.so) in the worktree are pre-built "
             "copies; rebuild only the module you change with gcc into the worktree (python3-config --includes; look at setup.py for the "
             "source list of each extension) and say how in notes.md." if os.environ.get("BENIGN_C") == "1" else "Do not change C sources."),
    "hint": (" " + os.environ["BENIGN_HINT"]) if os.environ.get("BENIGN_HINT") else ""})
