#!/usr/bin/env python3
"""tools/try_benign.py <PID> <worktree> [name]: confirm a behaviour-preserving change (demo exits 0 with and without it, suite
passes), apply it to /repo, run ./check <PID> (must exit 0), revert, store under /verif/benign/<name>/."""
import json, os, shutil, subprocess, sys
VERIF = os.path.dirname(os.path.dirname(os.path.abspath(__file__)))
pid, wt = sys.argv[1], sys.argv[2]
name = sys.argv[3] if len(sys.argv) > 3 else pid + "b"
seed = os.path.join(wt, "seed")
PY = "/venv/bin/python"
def run(cmd, cwd, timeout=1800):
    r = subprocess.run(cmd, shell=True, cwd=cwd, stdout=subprocess.PIPE, stderr=subprocess.STDOUT, universal_newlines=True, timeout=timeout)
    return r.returncode, r.stdout
meta = {"property": pid, "name": name, "kind": "behaviour-preserving"}
# bring the worktree to exactly "HEAD + patch.diff" (git stash is shared between worktrees: never used here)
run("git checkout -- miasm && git apply seed/patch.diff", wt)
rc_with, out_with = run("%s seed/demo.py" % PY, wt)
run("git apply -R seed/patch.diff", wt)
rc_without, out_without = run("%s seed/demo.py" % PY, wt)
run("git apply seed/patch.diff", wt)
rc_t, out_t = run("%s -m pytest -q -p no:cacheprovider --timeout=900 test/arch/mep 2>&1 | tail -1" % PY, wt)
meta.update({"demo_exit_with_patch": rc_with, "demo_exit_without_patch": rc_without, "suite_with_patch": out_t.strip()})
print("demo without patch: exit %d; with patch: exit %d; suite: %s" % (rc_without, rc_with, out_t.strip()))
meta["confirmed"] = rc_with == 0 and rc_without == 0 and "280 passed" in out_t
patch = os.path.join(seed, "patch.diff")
rc_a, out_a = run("git -C /repo apply --check %s" % patch, VERIF)
if rc_a != 0:
    print("patch does not apply to /repo:", out_a[:300]); meta["applies"] = False
else:
    meta["applies"] = True
    if os.environ.get("TRY_SCRATCH") == "1":
        # same check against a scratch copy of /repo's tree (used while a background run is reading /repo)
        scratch = "/dev/shm/try_benign_%s_%d" % (name, os.getpid())
        shutil.rmtree(scratch, ignore_errors=True)
        os.makedirs(scratch)
        try:
            run("git -C /repo archive HEAD miasm | tar x -C %s" % scratch, VERIF)
            run("patch -p1 -s < %s" % patch, scratch)
            os.makedirs(os.path.join(scratch, "out"))
            rc_c, out_c = run("VERIF_REPO=%s VERIF_OUT=%s/out ./check %s --tier quick" % (scratch, scratch, pid), VERIF)
        finally:
            shutil.rmtree(scratch, ignore_errors=True)
    else:
      try:
        run("git -C /repo apply %s" % patch, VERIF)
        env_out = "/dev/shm/benign_out_%s" % name
        os.makedirs(env_out, exist_ok=True)
        rc_c, out_c = run("VERIF_OUT=%s ./check %s --tier quick" % (env_out, pid), VERIF)
        shutil.rmtree(env_out, ignore_errors=True)
      finally:
        run("git -C /repo checkout -- .", VERIF)
    meta["check_exit"] = rc_c
    rep = [l for l in out_c.splitlines() if l.startswith("VIOLATION") or l.startswith("  rule") or l.startswith("  at ") or l.startswith("ANALYSIS-ERROR")]
    meta["check_report"] = rep[:12]
    print("check exit %d %s" % (rc_c, "(silent, as required)" if rc_c == 0 else "<<< FALSE ALARM / ANALYSIS ERROR"))
    for l in rep[:9]:
        print("   ", l[:220])
dst = os.path.join(VERIF, "benign", name)
os.makedirs(dst, exist_ok=True)
for f in ("patch.diff", "demo.py", "notes.md"):
    if os.path.exists(os.path.join(seed, f)):
        shutil.copy(os.path.join(seed, f), os.path.join(dst, f))
json.dump(meta, open(os.path.join(dst, "meta.json"), "w"), indent=1)
st = subprocess.run("git -C /repo status --short | head -3", shell=True, stdout=subprocess.PIPE, universal_newlines=True).stdout
print("repo clean:", not st.strip())
