#!/usr/bin/env python3
"""tools/seed_matrix.py [seed names...]: for every stored seeded change, copy /repo to a scratch tree under /dev/shm,
apply the patch there, run the property's quick check against the copy (VERIF_REPO), report exit code + rules fired.
Never touches /repo. Runs 8 seeds at a time."""
import concurrent.futures, json, os, shutil, subprocess, sys, re
VERIF = os.path.dirname(os.path.dirname(os.path.abspath(__file__)))
WRITE = "--write" in sys.argv
names = [a for a in sys.argv[1:] if a != "--write"] or sorted(os.listdir(os.path.join(VERIF, "seeded")))
def sh(cmd, cwd=None, env=None):
    r = subprocess.run(cmd, shell=True, cwd=cwd, env=env, stdout=subprocess.PIPE, stderr=subprocess.STDOUT, universal_newlines=True)
    return r.returncode, r.stdout
def one(name):
    d = os.path.join(VERIF, "seeded", name)
    meta = json.load(open(os.path.join(d, "meta.json")))
    pid = meta["property"]
    scratch = "/dev/shm/seedmx_%s_%d" % (name, os.getpid())
    shutil.rmtree(scratch, ignore_errors=True)
    os.makedirs(scratch)
    try:
        sh("git -C /repo archive HEAD miasm | tar -x -C %s" % scratch)
        rc, out = sh("git apply --directory=%s --unsafe-paths %s" % (scratch, os.path.join(d, "patch.diff")), cwd="/")
        if rc != 0:
            rc, out = sh("patch -p1 -d %s < %s" % (scratch, os.path.join(d, "patch.diff")))
            if rc != 0:
                return name, pid, "APPLY-FAIL", out[:200]
        env = dict(os.environ, VERIF_REPO=scratch, VERIF_OUT=scratch + "/out")
        os.makedirs(scratch + "/out", exist_ok=True)
        rc, out = sh("./check %s --tier quick" % pid, cwd=VERIF, env=env)
        rules = sorted(set(re.findall(r"rule (\w+):", out)))
        return name, pid, rc, ",".join(rules) + ("" if rc in (0, 1) else " | " + out.strip().splitlines()[-1][:150])
    finally:
        shutil.rmtree(scratch, ignore_errors=True)
with concurrent.futures.ThreadPoolExecutor(max_workers=8) as ex:
    res = list(ex.map(one, names))
miss = 0
for name, pid, rc, info in res:
    print("%-8s %s exit=%s %s" % (name, pid, rc, info))
    if rc != 1: miss += 1
    if WRITE:
        mp = os.path.join(VERIF, "seeded", name, "meta.json")
        meta = json.load(open(mp))
        meta["current_check_exit"] = rc
        meta["current_rules_fired"] = info
        if rc == 1 and not meta.get("caught_by"):
            meta["caught_by"] = "%s-%s (rule added or generalised after the first run missed it)" % (pid, info.split(",")[0])
        json.dump(meta, open(mp, "w"), indent=1)
print("missed/broken: %d of %d" % (miss, len(res)))
