#!/usr/bin/env python3
"""Regenerates MANIFEST.json from the rule modules present under rules/ and the tables below."""
import importlib
import json
import os
import sys

HERE = os.path.dirname(os.path.dirname(os.path.abspath(__file__)))
sys.path.insert(0, HERE)

NA = {
    "C02": "termination and idempotence are global properties of ~60 interacting rewrite rules; no termination measure or confluence argument is derivable from their shape (the practical non-termination source, unbounded exponents, is decided under C01-R5)",
    "C15": "value-level round trip through eight hand-written encoding tables; the only structural fact (all 166 field-codec classes define or inherit decode and encode) is too weak to claim the property",
    "C16": "text -> instruction -> text round trip: value-level, per-architecture printers and pyparsing grammars with no shared table to compare",
    "C17": "needs an independent reference disassembler as oracle; none can be consulted statically",
    "C18": "oracle is the host CPU; instruction semantics are value-level",
    "C19": "oracle is a reference emulator; instruction semantics are value-level",
    "C21": "an equivalence of executions under different configurations; no shape-level clause beyond what C22/C23/C49 already decide",
    "C34": "field layout and read-back of generated memory types is value-level",
    "C35": "oracle is GCC's x86-64 ABI",
    "C37": "SSA validity needs dominance reasoning over arbitrary input graphs at run time",
    "C38": "equality of iterative data-flow results with their path-based definitions is value-level over arbitrary graphs",
    "C39": "faithfulness of slices along a history is value-level",
    "C41": "needs a solver and concrete runs",
    "C42": "build/parse round trip of PE images is value-level (one structural candidate examined and not armed, DESIGN section 5)",
    "C43": "byte-exact parse/build round trip of toolchain-produced ELF files is value-level",
}
PENDING = "structural check designed in DESIGN.md section 4 but not built yet; not claimed until it runs clean"

ALL = ["C%02d" % i for i in range(1, 50)]


def main():
    checks = []
    na = []
    for pid in ALL:
        path = os.path.join(HERE, "rules", pid.lower() + ".py")
        if os.path.exists(path) and pid not in NA:
            mod = importlib.import_module("rules." + pid.lower())
            checks.append({
                "property_id": pid,
                "quick_cmd": "./check %s --tier quick" % pid,
                "thorough_cmd": "./check %s --tier thorough" % pid,
                "evidence_file": "/verif/evidence/%s.json" % pid,
                "replay_cmd_template": "./check %s --replay {path}" % pid,
                "engine": "sa",
                "level_claimed": {"category": "other", "text": mod.LEVEL_TEXT,
                                  "design_ref": "DESIGN.md section 4, %s" % pid},
                "level_note": "Decides the listed structural clauses (necessary conditions), not the behaviour. Trusted: "
                              + "; ".join(mod.ASSUMPTIONS),
                "technique": getattr(mod, "TECHNIQUE", "static analysis: custom AST/CFG/data-flow rules over /repo's source"),
            })
        else:
            na.append({"property_id": pid, "reason": NA.get(pid, PENDING)})
    man = {
        "version": 1,
        "setup_cmd": "true",
        "hooks": {
            "guard": "CEA_SEC_MIASM_VERIF",
            "enable": "no hooks: nothing in /repo is instrumented; the checkers read source only",
            "baseline_off_cmd": "cd /repo && /venv/bin/python -m pytest -ra -q -p no:cacheprovider --timeout=900 --continue-on-collection-errors",
            "source_commits": [],
            "add_only": True,
        },
        "engines": [{"name": "sa", "path": "/verif/sa",
                     "serves_properties": [c["property_id"] for c in checks],
                     "kind_free_text": "repository-specific static analysis: Python ast + own CFG/dominators/"
                                       "must-facts data-flow, clang JSON AST for the jitter C files; no code of "
                                       "/repo is imported or executed"}],
        "checks": checks,
        "not_applicable": na,
        "notes": "Exit codes: 0 held / only listed known findings; 1 VIOLATION; 2 ANALYSIS-ERROR (anchor vanished, "
                 "instance floor not met, construct not understood). known_findings.json lists genuine defects of "
                 "the pinned tree (open) and repaired ones (fixed:<commit>).",
    }
    with open(os.path.join(HERE, "MANIFEST.json"), "w") as f:
        json.dump(man, f, indent=1)
    print("claimed: %d, not applicable/pending: %d" % (len(checks), len(na)))


if __name__ == "__main__":
    main()
