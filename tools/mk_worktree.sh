#!/bin/sh
# usage: mk_worktree.sh <name>   -> creates /tmp/wt/<name>, a detached worktree of /repo HEAD with the build artefacts copied
set -e
d=/tmp/wt/$1
git -C /repo worktree add --detach "$d" HEAD >/dev/null 2>&1
cd /repo
for f in miasm/VERSION $(find miasm -name '*.so'); do
  mkdir -p "$d/$(dirname $f)"; cp "$f" "$d/$f"
done
echo "$d"
