#!/bin/sh
# everything that must hold before a commit is trusted: unchanged tree silent, every catalogued variant as expected, every stored seed caught,
# every stored behaviour-preserving change silent on every check, every metamorphic rewrite silent
cd "$(dirname "$0")/.."
echo "== run_all"; python3 tools/run_all.py | grep -v "exit=0"
echo "== selftest"; python3 selftest/run.py 2>&1 | grep "MISSED\|FALSE\|BROKEN\|WRONG\|selftest:"
echo "== seeds"; python3 tools/seed_matrix.py | grep -v "exit=1"
echo "== benign"; python3 tools/cross_benign.py | grep -v "silent on all"
if [ "$1" = "meta" ]; then echo "== metamorph"; python3 tools/metamorph.py 2>&1 | grep -v SyntaxWarning | grep "exit=\|metamorph:"; fi
