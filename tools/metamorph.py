#!/usr/bin/env python3
"""tools/metamorph.py [-t T1,T2..] [-p PID ...]: robustness of the checks against behaviour-preserving rewrites.

For every Python file a check consults (evidence/<PID>.json: files_analysed) and every transformation below, a scratch copy of
/repo's miasm/ tree is made under /dev/shm with that ONE file rewritten (ast -> transformed ast -> ast.unparse), and every check
consulting the file is run against the copy.  A behaviour-preserving rewrite must leave each check silent: exit 1 is a false
alarm, exit 2 an analysis that stopped understanding the code.  /repo is never touched.

  rename   every local variable of every function (parameters, globals, names used by nested functions or eval/exec/locals kept) gets
           a new name
  flipcmp  a < b -> b > a, a <= b -> b >= a, a == b -> b == a, a != b -> b != a (single-operator comparisons)
  notin    not (a in b) -> a not in b ; not (a is b) -> a is not b   and back
  ifelse   if c: A else: B  ->  if not c: B else: A   (two-armed ifs that are not elif chains)
  rettmp   return E  ->  _ret = E ; return _ret
  elseret  if c: A(leaves) else: B  ->  if c: A ; B          retelse  if c: A(leaves) ; rest  ->  if c: A else: rest
  unparse  no change but the round trip through ast.unparse (layout, parentheses, comments, quotes)
"""
import ast
import concurrent.futures
import json
import os
import shutil
import subprocess
import sys

VERIF = os.path.dirname(os.path.dirname(os.path.abspath(__file__)))
REPO = os.environ.get("VERIF_REPO", "/repo")


# ------------------------------------------------------------------------------------------------ transformations
class Rename(ast.NodeTransformer):
    def visit_FunctionDef(self, fn):
        # do nested functions first
        self.generic_visit(fn)
        if any(isinstance(n, ast.Call) and isinstance(n.func, ast.Name) and n.func.id in ("eval", "exec", "locals", "vars", "globals") for n in ast.walk(fn)):
            return fn
        if any(isinstance(d, (ast.Attribute, ast.Name, ast.Call)) and "parse" in ast.unparse(d) for d in fn.decorator_list):
            return fn                        # sembuilder DSL: names are semantics
        params = set(a.arg for a in fn.args.args + fn.args.kwonlyargs + fn.args.posonlyargs)
        if fn.args.vararg:
            params.add(fn.args.vararg.arg)
        if fn.args.kwarg:
            params.add(fn.args.kwarg.arg)
        keep = set(params)
        nested_names = set()
        for n in ast.walk(fn):
            if isinstance(n, (ast.Global, ast.Nonlocal)):
                keep.update(n.names)
            if isinstance(n, (ast.FunctionDef, ast.Lambda, ast.ClassDef)) and n is not fn:
                for x in ast.walk(n):
                    if isinstance(x, ast.Name):
                        nested_names.add(x.id)
                if isinstance(n, (ast.FunctionDef, ast.ClassDef)):
                    keep.add(n.name)
            if isinstance(n, (ast.ListComp, ast.SetComp, ast.DictComp, ast.GeneratorExp)):
                pass
            if isinstance(n, (ast.Import, ast.ImportFrom)):
                for a in n.names:
                    keep.add((a.asname or a.name).split(".")[0])
        stored = set()
        for n in ast.walk(fn):
            if isinstance(n, ast.Name) and isinstance(n.ctx, (ast.Store, ast.Del)):
                stored.add(n.id)
            if isinstance(n, ast.ExceptHandler) and n.name:
                keep.add(n.name)
        targets = sorted(x for x in stored if x not in keep and x not in nested_names and not x.startswith("__"))
        mapping = dict((x, "%s_rn" % x) for x in targets)

        class R(ast.NodeTransformer):
            def visit_Name(self, n):
                if n.id in mapping:
                    n.id = mapping[n.id]
                return n

            def visit_FunctionDef(self, n):
                return n if n is not fn else self.generic_visit(n)

            def visit_Lambda(self, n):
                return n
        R().visit(fn)
        return fn


_FLIP = {ast.Lt: ast.Gt, ast.Gt: ast.Lt, ast.LtE: ast.GtE, ast.GtE: ast.LtE, ast.Eq: ast.Eq, ast.NotEq: ast.NotEq}


class FlipCmp(ast.NodeTransformer):
    def visit_Compare(self, n):
        self.generic_visit(n)
        if len(n.ops) == 1 and type(n.ops[0]) in _FLIP:
            return ast.Compare(left=n.comparators[0], ops=[_FLIP[type(n.ops[0])]()], comparators=[n.left])
        return n


class NotIn(ast.NodeTransformer):
    def visit_UnaryOp(self, n):
        self.generic_visit(n)
        if isinstance(n.op, ast.Not) and isinstance(n.operand, ast.Compare) and len(n.operand.ops) == 1:
            o = n.operand.ops[0]
            m = {ast.In: ast.NotIn, ast.Is: ast.IsNot, ast.NotIn: ast.In, ast.IsNot: ast.Is}.get(type(o))
            if m is not None:
                return ast.Compare(left=n.operand.left, ops=[m()], comparators=n.operand.comparators)
        return n

    def visit_Compare(self, n):
        self.generic_visit(n)
        return n


class IfElse(ast.NodeTransformer):
    def visit_If(self, n):
        self.generic_visit(n)
        if n.orelse and not (len(n.orelse) == 1 and isinstance(n.orelse[0], ast.If)) and not getattr(n, "_is_elif", False):
            t = n.test
            nt = t.operand if isinstance(t, ast.UnaryOp) and isinstance(t.op, ast.Not) else ast.UnaryOp(op=ast.Not(), operand=t)
            return ast.If(test=nt, body=n.orelse, orelse=n.body)
        return n

    def visit(self, node):
        # mark elif nodes so that they are left alone
        if isinstance(node, ast.If) and len(node.orelse) == 1 and isinstance(node.orelse[0], ast.If):
            node.orelse[0]._is_elif = True
        return super(IfElse, self).visit(node)


class RetTmp(ast.NodeTransformer):
    def _body(self, body):
        out = []
        for st in body:
            if isinstance(st, ast.Return) and st.value is not None and not isinstance(st.value, (ast.Name, ast.Constant)):
                out.append(ast.Assign(targets=[ast.Name(id="_ret", ctx=ast.Store())], value=st.value))
                out.append(ast.Return(value=ast.Name(id="_ret", ctx=ast.Load())))
            else:
                out.append(st)
        return out

    def generic_visit(self, node):
        super(RetTmp, self).generic_visit(node)
        for fld in ("body", "orelse", "finalbody"):
            b = getattr(node, fld, None)
            if isinstance(b, list) and b and isinstance(b[0], ast.stmt):
                setattr(node, fld, self._body(b))
        return node

    def visit_FunctionDef(self, fn):
        if any(isinstance(n, (ast.Yield, ast.YieldFrom)) for n in ast.walk(fn)):
            return fn
        if any("parse" in ast.unparse(d) for d in fn.decorator_list):
            return fn
        return self.generic_visit(fn)


_LEAVE = (ast.Return, ast.Raise, ast.Continue, ast.Break)


def _blocks(tree):
    for node in ast.walk(tree):
        if not isinstance(node, (ast.FunctionDef, ast.If, ast.For, ast.While, ast.With, ast.Try, ast.ExceptHandler)):
            continue
        for fld in ("body", "orelse", "finalbody"):
            b = getattr(node, fld, None)
            if isinstance(b, list) and b and isinstance(b[0], ast.stmt):
                yield node, fld, b


def _in_function(tree):
    """only statement lists inside functions are touched (module level `if` chains define names)"""
    funcs = [n for n in ast.walk(tree) if isinstance(n, ast.FunctionDef)]
    inside = set()
    for f in funcs:
        for n in ast.walk(f):
            inside.add(id(n))
    return inside


def _rewrite_blocks(tree, fix):
    """apply fix(list of statements) -> list bottom-up to every statement list inside functions"""
    def rec(block):
        for st in block:
            if isinstance(st, (ast.FunctionDef, ast.ClassDef)):
                continue
            for fld in ("body", "orelse", "finalbody"):
                b = getattr(st, fld, None)
                if isinstance(b, list) and b and isinstance(b[0], ast.stmt):
                    setattr(st, fld, rec(b))
            for h in getattr(st, "handlers", []) or []:
                h.body = rec(h.body)
        return fix(block)
    for fn in [n for n in ast.walk(tree) if isinstance(n, ast.FunctionDef)]:
        fn.body = rec(fn.body)
    return tree


class ElseRet(object):
    """if c: A(leaves) else: B   ->   if c: A ; B        (else after return removed; elif chains untouched)"""
    def visit(self, tree):
        def fix(b):
            out = []
            for st in b:
                if isinstance(st, ast.If) and st.orelse and st.body and isinstance(st.body[-1], _LEAVE) and \
                        not (len(st.orelse) == 1 and isinstance(st.orelse[0], ast.If)):
                    rest = st.orelse
                    st.orelse = []
                    out.append(st)
                    out.extend(rest)
                else:
                    out.append(st)
            return out
        return _rewrite_blocks(tree, fix)


class RetElse(object):
    """if c: A(leaves) ; rest   ->   if c: A else: rest     (guard clause turned into a two-armed test; only when rest is non-empty)"""
    def visit(self, tree):
        def fix(b):
            for i, st in enumerate(b):
                if isinstance(st, ast.If) and not st.orelse and st.body and isinstance(st.body[-1], _LEAVE) and i + 1 < len(b):
                    st.orelse = b[i + 1:]
                    return b[:i + 1]
            return b
        return _rewrite_blocks(tree, fix)


class Identity(ast.NodeTransformer):
    pass


TRANSFORMS = {"rename": Rename, "flipcmp": FlipCmp, "notin": NotIn, "ifelse": IfElse, "rettmp": RetTmp, "elseret": ElseRet, "retelse": RetElse, "unparse": Identity}


def transform(src, name):
    tree = ast.parse(src)
    tree = TRANSFORMS[name]().visit(tree)
    ast.fix_missing_locations(tree)
    out = ast.unparse(tree)
    compile(out, "<metamorph>", "exec")
    return out


# ------------------------------------------------------------------------------------------------ driver
def consulted():
    """file -> set of PIDs whose check reads it"""
    out = {}
    for f in sorted(os.listdir(os.path.join(VERIF, "evidence"))):
        if not f.endswith(".json"):
            continue
        e = json.load(open(os.path.join(VERIF, "evidence", f)))
        for rel in (e.get("coverage", {}).get("files_analysed") or {}):
            if rel.endswith(".py"):
                out.setdefault(rel, set()).add(e["property_id"])
    return out


def one(job):
    rel, tname, pids = job
    src = open(os.path.join(REPO, rel)).read()
    try:
        new = transform(src, tname)
    except Exception as e:
        return rel, tname, [("*", "TRANSFORM-ERROR", str(e)[:100])]
    if new == ast.unparse(ast.parse(src)) and tname != "unparse":
        return rel, tname, []
    work = "/dev/shm/mm_%s_%s_%d" % (rel.replace("/", "_"), tname, os.getpid())
    shutil.rmtree(work, ignore_errors=True)
    os.makedirs(work)
    res = []
    try:
        shutil.copytree(os.path.join(REPO, "miasm"), os.path.join(work, "miasm"), ignore=shutil.ignore_patterns("*.so", "__pycache__", "*.pyc"))
        with open(os.path.join(work, rel), "w") as f:
            f.write(new)
        env = dict(os.environ, VERIF_REPO=work, VERIF_OUT=os.path.join(work, "out"))
        os.makedirs(os.path.join(work, "out"))
        for pid in sorted(pids):
            r = subprocess.run("./check %s --tier quick" % pid, shell=True, cwd=VERIF, env=env, stdout=subprocess.PIPE, stderr=subprocess.STDOUT, universal_newlines=True)
            if r.returncode != 0:
                lines = [l for l in r.stdout.splitlines() if l.startswith("  at ") or l.startswith("ANALYSIS-ERROR")]
                res.append((pid, r.returncode, "; ".join(x.strip()[:140] for x in lines[:4])))
    finally:
        shutil.rmtree(work, ignore_errors=True)
    return rel, tname, res


def main():
    args = sys.argv[1:]
    tnames = list(TRANSFORMS)
    only = set()
    if "-t" in args:
        tnames = args[args.index("-t") + 1].split(",")
    if "-p" in args:
        only = set(args[args.index("-p") + 1:])
    cons = consulted()
    jobs = []
    for rel, pids in sorted(cons.items()):
        p = set(pids) & only if only else pids
        if not p or not os.path.exists(os.path.join(REPO, rel)):
            continue
        for t in tnames:
            jobs.append((rel, t, p))
    bad = 0
    with concurrent.futures.ThreadPoolExecutor(max_workers=12) as ex:
        for rel, tname, res in ex.map(one, jobs):
            for (pid, rc, info) in res:
                bad += 1
                print("%-8s %-40s %s exit=%s %s" % (tname, rel, pid, rc, info))
    print("metamorph: %d jobs, %d non-silent results" % (len(jobs), bad))


if __name__ == "__main__":
    main()
