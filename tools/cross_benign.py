#!/usr/bin/env python3
"""tools/cross_benign.py [names...]: apply every behaviour-preserving change kept under /verif/benign/ to a scratch copy of /repo
and run ALL checks on it; any exit != 0 is a false alarm (1) or an analysis that stopped understanding the code (2)."""
import json, os, shutil, subprocess, sys
from concurrent.futures import ThreadPoolExecutor
VERIF = os.path.dirname(os.path.dirname(os.path.abspath(__file__)))
names = sys.argv[1:] or sorted(os.listdir(os.path.join(VERIF, "benign")))
man = json.load(open(os.path.join(VERIF, "MANIFEST.json")))
pids = [c["property_id"] for c in man["checks"]]


def one(name):
    d = "/dev/shm/cb_%s_%d" % (name, os.getpid())
    shutil.rmtree(d, ignore_errors=True)
    os.makedirs(d)
    subprocess.run("git -C /repo archive HEAD miasm | tar -x -C %s" % d, shell=True, check=True)
    r = subprocess.run("cd %s && patch -p1 -s < %s/benign/%s/patch.diff" % (d, VERIF, name), shell=True, stdout=subprocess.PIPE, stderr=subprocess.STDOUT)
    if r.returncode != 0:
        shutil.rmtree(d, ignore_errors=True)
        return name, [("patch", 9, r.stdout.decode()[:200])]
    bad = []
    for pid in pids:
        env = dict(os.environ, VERIF_REPO=d, VERIF_OUT=d + "/out")
        r = subprocess.run(["./check", pid], cwd=VERIF, env=env, stdout=subprocess.PIPE, stderr=subprocess.STDOUT, universal_newlines=True)
        if r.returncode != 0:
            lines = [l for l in r.stdout.splitlines() if l.startswith("  at ") or l.startswith("ANALYSIS-ERROR")]
            bad.append((pid, r.returncode, "; ".join(l.strip()[:110] for l in lines[:4])))
    shutil.rmtree(d, ignore_errors=True)
    return name, bad


with ThreadPoolExecutor(8) as ex:
    tot = 0
    for name, bad in ex.map(one, names):
        tot += len(bad)
        print("%-8s %s" % (name, "silent on all %d checks" % len(pids) if not bad else ""))
        for b in bad:
            print("      %s exit %d: %s" % b)
print("false alarms / analysis errors: %d" % tot)
